#!/bin/bash
# Build the overlay interpreter used by every check: /venv's python 3.12 +
# /venv's site-packages (trio, greenlet, stackscope editable -> /repo) +
# crosshair-tool/z3-solver/cvc5 from the offline wheelhouse. Idempotent.
set -euo pipefail
cd "$(dirname "$0")"
V=/verif/.venv
WH=/opt/veriftools/wheels
export PIP_NO_INDEX=1 PIP_DISABLE_PIP_VERSION_CHECK=1
if [ ! -x "$V/bin/python" ] || ! "$V/bin/python" -c "import crosshair, z3, stackscope" >/dev/null 2>&1; then
  rm -rf "$V"
  /venv/bin/python -m venv "$V"
  SP=$("$V/bin/python" -c "import sysconfig; print(sysconfig.get_paths()['purelib'])")
  printf '/venv/lib/python3.12/site-packages\n/repo\n' > "$SP/verif_overlay.pth"
  "$V/bin/pip" install -q --no-index --find-links "$WH" crosshair-tool z3-solver cvc5 jsonschema >/dev/null
fi
"$V/bin/python" -c "import crosshair, z3, stackscope, sys; print('overlay ok', sys.version.split()[0], 'z3', z3.get_version_string())"
