"""C14 -- Trio: the extracted tree is isomorphic to the real task tree, across thread hops.

Engine: symx (solver-enumerated task-tree shapes and hop chains; LOW SOLVER LEVERAGE: the glue
branches on the shape of Trio's own objects, not on numbers).  Every path runs a real
`trio.run`: tasks block at fixed points (Event.wait / a nursery's __aexit__), worker threads park
on threading.Event, so each run is deterministic; the extraction is taken by an observer task
after `wait_all_tasks_blocked()`.
Real code: unwrap_task, elaborate_nursery, elaborate_to_thread_run_sync, elaborate_from_thread_run,
the trap-frame customizations, extract_child(for_task=True), and everything below.
Oracle: Trio's own task.child_nurseries / nursery.child_tasks; for hop chains the construction order.
"""
from __future__ import annotations

import contextlib
import io
import itertools
import sys
import threading
import warnings
from typing import Any, Dict, List, Optional, Tuple

import stackscope
from stackscope import Context, Stack
from vlib import par
from vlib.symx import Engine

OB1 = "C14.task tree isomorphic to Trio's own (nurseries, child tasks, blocking points)"
OB2 = "C14.to_thread / from_thread hop chains"
FUNCTIONS = ["stackscope._glue.glue_trio.unwrap_task", "stackscope._glue.glue_trio.elaborate_nursery",
             "stackscope._glue.glue_trio.elaborate_to_thread_run_sync", "stackscope._glue.glue_trio.elaborate_from_thread_run",
             "stackscope._extract.extract_child(for_task=True)", "stackscope._lowlevel.contexts_active_in_frame (nursery __aexit__ shapes)"]

# A task spec: (list of nurseries, block_where); a nursery = list of child task specs.
# block_where: -1 = block in the innermost body (after opening all nurseries);
#              i  = do not go deeper than nursery i: fall out of its body and block in its __aexit__
# body_end: how the nursery body ends (decides the bytecode shape the exiting-context analysis sees)
BODY_ENDS = ["plain", "try_finally", "try_except", "if_return", "same_frame", "acm", "start", "start_pending"]


def task_shapes(depth: int, fan: int, nmax: int, small_cap: int = 3, opt_cap: int = 4) -> List[Any]:
    """Task specs up to the bounds, smallest first (children are drawn from the `small_cap` smallest
    sub-shapes, nurseries from the `opt_cap` first child multisets)."""
    if depth == 0:
        return [([], -1)]
    subs = task_shapes(depth - 1, fan, nmax, small_cap, opt_cap)
    small = subs[: min(len(subs), small_cap)]
    out: List[Any] = [([], -1)]
    nursery_options: List[List[Any]] = []
    for k in range(1, fan + 1):
        for combo in itertools.combinations_with_replacement(range(len(small)), k):
            nursery_options.append([small[c] for c in combo])
    for nn in range(1, nmax + 1):
        for ns in itertools.product(nursery_options[:opt_cap], repeat=nn):
            for block in [-1] + list(range(nn)):
                out.append((list(ns), block))
    return out


def run_tree(spec: Any, body_end: str, recurse: bool) -> Dict[str, Any]:
    import trio
    import trio.testing

    reg: Dict[int, Any] = {}
    blocked = []
    counter = [0]
    result: Dict[str, Any] = {}

    async def block() -> None:
        ev = trio.Event()
        blocked.append(ev)
        await ev.wait()

    async def nest_plain(sp: Any, i: int, tid: int) -> Any:
        nurseries, where = sp
        if i == len(nurseries):
            return await block()
        async with trio.open_nursery() as n:
            for child in nurseries[i]:
                n.start_soon(run_task, child)
            if where != i:
                await NEST[body_end](sp, i + 1, tid)

    async def nest_try_finally(sp: Any, i: int, tid: int) -> Any:
        nurseries, where = sp
        if i == len(nurseries):
            return await block()
        async with trio.open_nursery() as n:
            for child in nurseries[i]:
                n.start_soon(run_task, child)
            try:
                if where != i:
                    await NEST[body_end](sp, i + 1, tid)
            finally:
                counter[0] += 1

    async def nest_try_except(sp: Any, i: int, tid: int) -> Any:
        nurseries, where = sp
        if i == len(nurseries):
            return await block()
        async with trio.open_nursery() as n:
            for child in nurseries[i]:
                n.start_soon(run_task, child)
            try:
                if where != i:
                    await NEST[body_end](sp, i + 1, tid)
            except KeyError:
                counter[0] += 1

    async def nest_if_return(sp: Any, i: int, tid: int) -> Any:
        nurseries, where = sp
        if i == len(nurseries):
            return await block()
        async with trio.open_nursery() as n:
            for child in nurseries[i]:
                n.start_soon(run_task, child)
            if where != i:
                await NEST[body_end](sp, i + 1, tid)
            if counter[0] < 0:
                return 7

    async def nest_same_frame(sp: Any, i: int, tid: int) -> Any:
        """Two nested nurseries opened in ONE frame (the other shapes open one nursery per frame, by recursion)."""
        nurseries, where = sp
        if i != 0 or len(nurseries) != 2:
            return await nest_plain(sp, i, tid)
        async with trio.open_nursery() as n0:
            for child in nurseries[0]:
                n0.start_soon(run_task, child)
            if where != 0:
                async with trio.open_nursery() as n1:
                    for child in nurseries[1]:
                        n1.start_soon(run_task, child)
                    if where != 1:
                        await block()

    @contextlib.asynccontextmanager
    async def helper_nursery() -> Any:
        async with trio.open_nursery() as n:
            yield n

    async def nest_acm(sp: Any, i: int, tid: int) -> Any:
        """The nursery is opened by an @asynccontextmanager helper: its context lives in the helper's inner stack."""
        nurseries, where = sp
        if i == len(nurseries):
            return await block()
        async with helper_nursery() as n:
            for child in nurseries[i]:
                n.start_soon(run_task, child)
            if where != i:
                await NEST[body_end](sp, i + 1, tid)

    async def started_task(sp: Any, task_status: Any = trio.TASK_STATUS_IGNORED) -> None:
        t = trio.lowlevel.current_task()
        tid = len(reg)
        reg[tid] = (t, sp)
        task_status.started()
        await NEST[body_end](sp, 0, tid)

    async def nest_start(sp: Any, i: int, tid: int) -> Any:
        """Children are started with `await nursery.start(...)` (they call started() at once and so have moved from
        Trio's hidden helper nursery into this one by the time anything is observed)."""
        nurseries, where = sp
        if i == len(nurseries):
            return await block()
        async with trio.open_nursery() as n:
            for child in nurseries[i]:
                await n.start(started_task, child)
            if where != i:
                await NEST[body_end](sp, i + 1, tid)

    async def pending_task(sp: Any, task_status: Any = trio.TASK_STATUS_IGNORED) -> None:
        t = trio.lowlevel.current_task()
        tid = len(reg)
        reg[tid] = (t, sp)
        await nest_plain(sp, 0, tid)  # never calls started(): stays in the hidden nursery inside Nursery.start()

    async def nest_start_pending(sp: Any, i: int, tid: int) -> Any:
        """The LAST child of a nursery is started with `await nursery.start(...)` and has not called started() yet:
        the parent is blocked inside Nursery.start(), the child lives in the nursery Trio opens there."""
        nurseries, where = sp
        if i == len(nurseries):
            return await block()
        async with trio.open_nursery() as n:
            for child in nurseries[i][:-1]:
                n.start_soon(run_plain_task, child)
            for child in nurseries[i][-1:]:
                await n.start(pending_task, child)
            if where != i:
                await nest_plain(sp, i + 1, tid)

    async def run_plain_task(sp: Any) -> None:
        t = trio.lowlevel.current_task()
        tid = len(reg)
        reg[tid] = (t, sp)
        await nest_plain(sp, 0, tid)

    NEST = {"plain": nest_plain, "acm": nest_acm, "start": nest_start, "start_pending": nest_start_pending, "try_finally": nest_try_finally, "try_except": nest_try_except, "if_return": nest_if_return,
            "same_frame": nest_same_frame}

    async def run_task(sp: Any) -> None:
        t = trio.lowlevel.current_task()
        tid = len(reg)
        reg[tid] = (t, sp)
        await NEST[body_end](sp, 0, tid)

    async def main() -> None:
        async with trio.open_nursery() as top:
            top.start_soon(run_task, spec)
            await trio.testing.wait_all_tasks_blocked()
            root_task = reg[0][0]
            with warnings.catch_warnings(record=True) as w, contextlib.redirect_stderr(io.StringIO()):
                warnings.simplefilter("always")
                try:
                    result["stack"] = stackscope.extract(root_task, recurse_child_tasks=recurse)
                except Exception as ex:
                    result["raised"] = repr(ex)
            result["warnings"] = [str(x.message)[:200] for x in w]
            result["why"] = None if "raised" in result else compare_task(result["stack"], root_task, recurse, result)
            top.cancel_scope.cancel()

    trio.run(main)
    return result


def nursery_contexts(st: Stack) -> List[Context]:
    import trio

    out = []
    for f in st.frames:
        for c in f.contexts:
            if isinstance(c.obj, trio.Nursery):
                out.append(c)
            if c.inner_stack is not None:  # a generator-based manager: what it holds open nests inside it
                out.extend(nursery_contexts(c.inner_stack))
    return out


def compare_task(st: Stack, task: Any, recurse: bool, res: Dict[str, Any]) -> Optional[str]:
    import trio

    if st.root is not task:
        return f"stack root is {st.root!r}, expected {task!r}"
    if st.error is not None:
        return f"error in the stack of {task.name}: {st.error!r}"
    if not st.frames:
        return f"no frames for {task.name}"
    ncs = nursery_contexts(st)
    real = list(task.child_nurseries)
    if [id(c.obj) for c in ncs] != [id(n) for n in real]:
        return (f"{task.name}: nursery contexts {[id(c.obj) % 1000 for c in ncs]} != child_nurseries "
                f"{[id(n) % 1000 for n in real]} (each open nursery once, in nesting order)")
    for c, n in zip(ncs, real):
        kids = list(c.children)
        if any(not isinstance(k, Stack) for k in kids):
            return f"{task.name}: nursery child that is not a Stack"
        if sorted(id(k.root) for k in kids) != sorted(id(t) for t in n.child_tasks):
            return f"{task.name}: children of a nursery context are not exactly its child tasks"
        for k in kids:
            if recurse:
                why = compare_task(k, k.root, recurse, res)
                if why:
                    return why
            elif k.frames:
                return f"{task.name}: child task stack is populated although recurse_child_tasks=False"
    # blocking point: the innermost visible frame is where the task waits
    vis = [f for f in st.frames if not f.hide]
    last = vis[-1].funcname
    if last not in ("wait", "nest_plain", "nest_try_finally", "nest_try_except", "nest_if_return", "nest_acm", "nest_start", "nest_start_pending", "start", "_nested_child_finished", "__aexit__"):
        return f"{task.name}: innermost visible frame is {last}"
    return None


def tree_case(spec: Any, body_end: str, recurse: bool) -> Dict[str, Any]:
    r = run_tree(spec, body_end, recurse)
    why = r.get("why")
    if "raised" in r:
        why = f"extract raised {r['raised']}"
    ws = r.get("warnings") or []
    # finding F2's signature in this setting: a task blocked in the __aexit__ of a nursery whose body ends in
    # try/except or `if ...: return`, and the exit-site matcher gives up (warning) on exactly such a frame
    sig = [x for x in ws if ("couldn't find an exception table entry" in x or ("Inspection trickery failed" in x and "KeyError" in x))
           and ("nest_try_except" in x or "nest_if_return" in x)]
    f2 = bool(sig) and body_end in ("try_except", "if_return") and _blocks_in_aexit(spec) and len(sig) == len(ws)
    if why is None and ws:
        why = "warning during extraction: " + ws[0]
    return {"ok": why is None, "why": why, "f2": f2 and why is not None}


def _blocks_in_aexit(sp: Any) -> bool:
    nurseries, where = sp
    if where != -1:
        return True
    return any(_blocks_in_aexit(ch) for n in nurseries for ch in n)


def _tree_shard(sh: Dict[str, Any]) -> Dict[str, Any]:
    cex: List[Dict[str, Any]] = []
    samples: List[Any] = []
    shapes = task_shapes(sh["depth"], sh["fan"], sh["nmax"], *sh["caps"])
    lo, hi = sh["lo"], min(sh["hi"], len(shapes))

    def harness(e: Engine) -> None:
        si = lo + e.choice("shape", hi - lo)
        be = BODY_ENDS[e.choice("body_end", len(BODY_ENDS))]
        rec = e.flag("recurse_child_tasks")
        r = tree_case(shapes[si], be, rec)
        if len(samples) < 1:
            samples.append({"task_tree": shapes[si], "body_end": be, "recurse": rec})
        if not r["ok"] and sum(1 for c in cex if c["f2"] == r["f2"]) < 2:
            cex.append({"tree": si, "bounds": [sh["depth"], sh["fan"], sh["nmax"], *sh["caps"]], "body_end": be, "recurse": rec, "why": r["why"], "f2": r["f2"]})

    eng = Engine(max_seconds=1200)
    if hi > lo:
        eng.explore(harness)
    else:
        eng.exhausted = True
    return par.shard_result(eng, shard=f"trees {lo}-{hi}", cex=cex, samples=samples)


# ------------------------------------------------------------------ thread hops
def hop_case(depth: int, observe_from: int, root: str = "task", two_loops: bool = False) -> Optional[str]:
    """root "task":    main task -> to_thread.run_sync(s1) -> from_thread.run(a1) -> to_thread.run_sync(s2) ... `depth` hops;
    root "foreign":  a thread that is NOT a Trio worker -> from_thread.run(a1, trio_token=...) -> to_thread.run_sync(s2)
                     -> from_thread.run(a3) ... `depth` hops (depth >= 1); what is extracted is the foreign thread.
    The innermost level parks.  observe_from 0: another Trio task extracts the root;
    1: the innermost function extracts it from where it runs (thread or Trio side)."""
    import trio
    import trio.testing

    box: Dict[str, Any] = {}
    release = threading.Event()
    parked = threading.Event()

    foreign = root == "foreign"

    def is_sync(k: int) -> bool:
        return (k % 2 == 1) != foreign

    def expected_names() -> List[str]:
        names = ["foreign_main" if foreign else "main"]
        for k in range(1, depth + 1):
            names.append("sync_level" if is_sync(k) else "async_level")
        return names

    def observe(tag: str) -> None:
        with warnings.catch_warnings(record=True) as w:
            warnings.simplefilter("always")
            try:
                box["stack"] = stackscope.extract(box["foreign_thread"] if foreign else box["main_task"], recurse_child_tasks=False)
            except Exception as ex:
                box["raised"] = repr(ex)
        box["warnings"] = [str(x.message)[:200] for x in w]

    level_frames: List[Any] = []

    def sync_level(k: int) -> None:
        level_frames.append(sys._getframe(0))
        if k == depth:
            if observe_from == 1:
                observe("thread")
                return
            parked.set()
            release.wait(20)
            return
        trio.from_thread.run(async_level, k + 1)

    async def async_level(k: int) -> None:
        level_frames.append(sys._getframe(0))
        if k == depth:
            if observe_from == 1:
                observe("trio")
                return
            box["innermost_event"] = trio.Event()
            parked.set()
            await box["innermost_event"].wait()
            return
        await trio.to_thread.run_sync(sync_level, k + 1)

    async def main() -> None:
        box["main_task"] = trio.lowlevel.current_task()
        if depth == 0:
            if observe_from == 1:
                observe("trio")
                return
            box["innermost_event"] = trio.Event()
            parked.set()
            await box["innermost_event"].wait()
            return
        await trio.to_thread.run_sync(sync_level, 1)

    def foreign_main(token: Any) -> None:
        trio.from_thread.run(async_level, 1, trio_token=token)

    async def start_foreign() -> None:
        t = threading.Thread(target=foreign_main, args=(trio.lowlevel.current_trio_token(),), daemon=True)
        box["foreign_thread"] = t
        t.start()
        while t.is_alive():
            await trio.sleep(0.001)

    async def outer() -> None:
        async with trio.open_nursery() as n:
            n.start_soon(start_foreign if foreign else main)
            if observe_from == 0:
                while not parked.is_set():
                    await trio.sleep(0.001)
                await trio.testing.wait_all_tasks_blocked()
                observe("observer")
                release.set()
                if "innermost_event" in box:
                    box["innermost_event"].set()

    # two_loops: another Trio loop is already running in another thread (and touched Trio's run context first); the
    # explicit token must select the loop the call was sent to
    bg_stop, bg_ready = threading.Event(), threading.Event()

    def other_loop() -> None:
        async def amain() -> None:
            bg_ready.set()
            while not bg_stop.is_set():
                await trio.sleep(0.002)

        trio.run(amain)

    bg: Optional[threading.Thread] = None
    if two_loops:
        bg = threading.Thread(target=other_loop, daemon=True)
        bg.start()
        bg_ready.wait(10)
    try:
        if two_loops:
            # the loop under study runs in a FRESH thread, so that its thread-local run context is created after the other loop's
            err: List[BaseException] = []

            def run_it() -> None:
                try:
                    trio.run(outer)
                except BaseException as ex:  # noqa
                    err.append(ex)

            th = threading.Thread(target=run_it, daemon=True)
            th.start()
            th.join(60)
            if err:
                raise err[0]
        else:
            trio.run(outer)
    finally:
        bg_stop.set()
        if bg is not None:
            bg.join(10)
    if "raised" in box:
        return f"extract raised {box['raised']}"
    st = box.get("stack")
    if st is None:
        return "no observation"
    if st.error is not None:
        return f"error {st.error!r}"
    if box.get("warnings"):
        return "warning: " + box["warnings"][0]
    vis = [f.funcname for f in st.frames if not f.hide]
    exp = expected_names()
    # the visible frames must pass through every level in order (the innermost may be followed by
    # the wait it is parked in / the observing helper); bridging internals are hidden
    it = iter(vis)
    for name in exp:
        for v in it:
            if v == name:
                break
        else:
            return f"visible frames {vis} do not continue through {exp}"
    if vis.count("sync_level") != sum(1 for x in exp if x == "sync_level") or vis.count("async_level") != sum(1 for x in exp if x == "async_level"):
        return f"levels duplicated or missing: {vis} vs {exp}"
    # nothing else may be visible between the levels: the visible series STARTS with exactly the levels
    if vis[: len(exp)] != exp:
        return f"bridging internals are visible between the levels: {vis} (expected to start with {exp})"
    # and each level is the frame of THAT hop (several worker threads run the same function under equal names)
    got_frames = [f.pyframe for f in st.frames if not f.hide][1: len(exp)]
    if [id(x) for x in got_frames] != [id(x) for x in level_frames[: len(got_frames)]]:
        return "a hop level is stitched to another call's frame (same function, different thread)"
    return None


def _hop_shard(sh: Dict[str, Any]) -> Dict[str, Any]:
    cex: List[Dict[str, Any]] = []
    samples: List[Any] = []

    def harness(e: Engine) -> None:
        root = ["task", "foreign"][e.choice("root", 2)]
        d = e.choice("alternation_depth", sh["maxdepth"] + 1)
        if root == "foreign" and d == 0:
            e.assume(False)
        o = e.choice("observe_from", 2)
        two = e.flag("another_trio_loop_is_running") if root == "foreign" else False
        why = hop_case(d, o, root, two)
        if len(samples) < 1:
            samples.append({"hops": d, "observe_from": o, "root": root, "two_loops": two})
        if why and len(cex) < 6:
            cex.append({"hops": d, "observe_from": o, "root": root, "two_loops": two, "why": why, "f2": False})

    eng = Engine(max_seconds=600)
    eng.explore(harness)
    return par.shard_result(eng, shard="hops", cex=cex, samples=samples)


def run(rep: Any, tier: str, seed: int) -> None:
    import z3

    rep.engine_name = f"symx (z3 {z3.get_version_string()}), real trio.run per path"
    rep.functions = FUNCTIONS
    depth, fan, nmax = (2, 2, 2) if tier == "quick" else (3, 2, 2)
    caps = [3, 4] if tier == "quick" else [5, 7]
    shapes = task_shapes(depth, fan, nmax, *caps)
    cap = len(shapes)
    rep.bounds = {"task trees": f"depth <= {depth}, fan-out <= {fan}, <= {nmax} nested nurseries per task, children from the {caps[0]} smallest sub-shapes, nurseries from the first {caps[1]} child multisets: {len(shapes)} shapes",
                  "blocking point": "innermost body or any nursery's __aexit__", "nursery body endings": BODY_ENDS,
                  "recurse_child_tasks": [False, True], "hop chains": f"alternation depth 0..{3 if tier == 'quick' else 5}, rooted in a Trio task or in a foreign thread calling from_thread.run(trio_token=...) (with or without a second Trio loop running in another thread), observed by another task and by the innermost level"}
    rep.outside = ["trees beyond the bounds", "tasks blocked anywhere other than an Event wait / a nursery __aexit__", "free-running threads (every thread is parked)",
                   "Trio versions other than the installed one"]
    rep.assumptions = ["low solver leverage: finite shape product certified complete by the solver",
                       "each path is a deterministic trio.run: tasks are observed after wait_all_tasks_blocked(), threads parked on Events"]
    step = max(6, cap // 48)
    jobs: List[Tuple[str, Any]] = [("_tree_shard", {"depth": depth, "fan": fan, "nmax": nmax, "caps": caps, "lo": lo, "hi": min(lo + step, cap)}) for lo in range(0, cap, step)]
    jobs.append(("_hop_shard", {"maxdepth": 3 if tier == "quick" else 5}))
    res = par.run_mixed("harness.c14", jobs)
    for c in par.fold(rep, OB1, [r for f, r in res if f == "_tree_shard"]):
        rep.counterexample(OB1, c, c["why"])
    for c in par.fold(rep, OB2, [r for f, r in res if f == "_hop_shard"]):
        rep.counterexample(OB2, c, c["why"])


def replay(c: Dict[str, Any]) -> Dict[str, Any]:
    if "hops" in c:
        why = hop_case(c["hops"], c["observe_from"], c.get("root", "task"), bool(c.get("two_loops")))
        return {"status": "reproduces" if why else "not-reproduced", "detail": why}
    d, f, n, c1, c2 = c["bounds"]
    r = tree_case(task_shapes(d, f, n, c1, c2)[c["tree"]], c["body_end"], c["recurse"])
    return {"status": "reproduces" if not r["ok"] else "not-reproduced", "detail": r}


def classify(c: Dict[str, Any], out: Dict[str, Any]) -> Optional[str]:
    if c.get("f2"):
        return "F2"
    return None
