"""C05 -- extract never raises: faults contained, reported in .error, outer frames kept.

Engine: symx.  Real code: the whole extraction path on real objects.
Symbolic: k (an UNBOUNDED z3 Int >= 1) = global index of the hook invocation
that raises Injected; every wrapped dispatcher does `if counter == k: raise`,
so the solver yields one path per dynamic invocation plus the class "k beyond
the last invocation" (= fault-free).  Thorough: a second index k2 > k.
"""
from __future__ import annotations

import contextlib
import re
import sys
import threading
import types
from typing import Any, Callable, Dict, List, Optional, Tuple

import stackscope
from stackscope import _extract, _glue, _customization, Frame, Stack, Context
from vlib import par
from vlib.symx import Engine

from harness import itemdrv as D

OB = "C05.fault-containment(k symbolic)"
OB6 = "C05.arbitrary-objects"
FUNCTIONS = ["stackscope._extract.extract / extract_child / extract_iter / fill_context", "stackscope._glue (all glue reached by the scenarios)",
             "stackscope._lowlevel.contexts_active_in_frame (as a fault site)", "stackscope._types formatting of the faulty result"]


class Injected(Exception):
    pass


class InjectedKey(KeyError):
    pass


# the library uses these types for its own control flow (`except RuntimeError:  # no frames`, `except (ValueError, IndexError)`,
# `except StopIteration`, `except AttributeError`, `except TypeError`): a HOOK that raises one of them is still a fault to report
class InjectedRuntime(RuntimeError):
    pass


class InjectedIndex(IndexError):
    pass


class InjectedAttribute(AttributeError):
    pass


class InjectedValue(ValueError):
    pass


class InjectedType(TypeError):
    pass


class InjectedStop(StopIteration):
    pass


FAULT_KINDS = [Injected, InjectedKey, InjectedRuntime, InjectedIndex, InjectedAttribute, InjectedValue, InjectedType, InjectedStop]


# ----------------------------------------------------------------- scenarios
def _noop(*a: Any) -> None:
    return None


class CM:
    def __init__(self, name: str):
        self.name = name

    def __enter__(self) -> "CM":
        return self

    def __exit__(self, *a: Any) -> None:
        return None

    async def __aenter__(self) -> "CM":
        return self

    async def __aexit__(self, *a: Any) -> None:
        return None


@contextlib.contextmanager
def outer_cm():
    with inner_cm() as x:
        yield x


@contextlib.contextmanager
def inner_cm():
    with CM("innermost"):
        yield 1


@contextlib.asynccontextmanager
async def a_outer_cm():
    async with CM("a-inner"):
        yield 2


# hooks that do nothing, registered so that the dispatcher is actually invoked for these managers (the glue asks
# `mgr_code in unwrap_context_generator.registry` first): a fault in such a hook must be reported like any other
def _no_unwrap(frame: Any, context: Any) -> Any:
    return None


for _cm in (inner_cm, a_outer_cm):
    stackscope.unwrap_context_generator.register(_cm)(_no_unwrap)


@types.coroutine
def trap():
    yield "trap"


def s1() -> Tuple[Any, Callable[[], None], bool]:
    async def leaf():
        with outer_cm():
            await trap()

    async def mid():
        with contextlib.ExitStack() as es:
            es.enter_context(inner_cm())
            es.callback(_noop, "x")
            es.push(CM("pushed"))
            await leaf()

    async def top():
        # several sibling managers in one frame: faults in two of them belong to the same Stack
        with CM("top"), CM("top2"), inner_cm():
            await mid()

    co = top()
    co.send(None)
    return co, co.close, True


def s2() -> Tuple[Any, Callable[[], None], bool]:
    async def leaf():
        async with a_outer_cm():
            await trap()

    async def mid():
        async with contextlib.AsyncExitStack() as es:
            await es.enter_async_context(a_outer_cm())
            es.push_async_callback(leaf_cb)
            es.enter_context(outer_cm())
            await leaf()

    async def leaf_cb() -> None:
        pass

    async def agen():
        async with CM("agen"):
            await mid()
            yield 1

    ag = agen()
    an = ag.asend(None)
    an.send(None)
    return ag, lambda: None, True


S3_TREES = [
    (["I", "iter", [["G", 0], ["I", "tuple", [["G", 1], ["F", 2]]], ["L", 0]]], {1: ["ins", [["F", 3]]]}),
    (["I", "list", [["F", 0], ["I", "iter", [["F", 1], ["G", 2]]]]], {0: ["ins", [["I", "iter", [["F", 3], ["F", 4]]]]], 3: ["none"]}),
    (["I", "tuple", [["G", 0], ["G", 1], ["G", 2]]], {1: ["rep1", ["I", "iter", [["F", 3]]]]}),
]


def s3(i: int) -> Tuple[Any, Callable[[], None], bool]:
    tree, beh = S3_TREES[i]
    D.set_behaviour(beh)
    return D.build(tree), lambda: None, False


def s4() -> Tuple[Any, Callable[[], None], bool]:
    ready, done = threading.Event(), threading.Event()

    def level2():
        with CM("thread"):
            ready.set()
            done.wait(30)

    def level1():
        with outer_cm():
            level2()

    t = threading.Thread(target=level1, daemon=True)
    t.start()
    ready.wait(10)
    import time

    time.sleep(0.01)

    def cleanup() -> None:
        done.set()
        t.join(5)

    return t, cleanup, True


def s5() -> Tuple[Any, Callable[[], None], bool]:
    import greenlet

    def inner():
        with CM("glet"):
            greenlet.getcurrent().parent.switch()

    def outer():
        with outer_cm():
            inner()

    g = greenlet.greenlet(outer)
    g.switch()

    def cleanup() -> None:
        g.switch()

    return g, cleanup, True


SCENARIOS: List[Tuple[str, Callable[[], Tuple[Any, Callable[[], None], bool]]]] = [
    ("S1-coroutine+gcm+ExitStack", s1), ("S2-asyncgen+AsyncExitStack", s2),
    ("S3a-items", lambda: s3(0)), ("S3b-items", lambda: s3(1)), ("S3c-items", lambda: s3(2)),
    ("S4-thread", s4), ("S5-greenlet", s5),
]


# ------------------------------------------------------------------ injector
class Injector:
    SITES = [
        (_extract, "unwrap_stackitem"), (_extract, "elaborate_frame"), (_extract, "contexts_active_in_frame"),
        (_extract, "elaborate_context"), (_extract, "unwrap_context"), (_glue, "unwrap_context_generator"),
    ]

    def __init__(self, ks: List[Any], kind: int, after: bool = False):
        self.ks = ks
        self.kind = kind
        self.after = after  # raise AFTER the real hook has run (it may already have changed the frame / context)
        self.counter = 0
        self.records: List[Dict[str, Any]] = []
        self.trace: List[str] = []
        self.builds: List[Dict[str, Any]] = []      # active extract_child invocations
        self.build_results: Dict[int, Stack] = {}
        self.build_seq = 0
        self.saved: List[Tuple[Any, str, Any]] = []

    def _maybe_raise(self, site: str, frame_pyframe: Any = None, bump: bool = True) -> None:
        if bump:
            self.counter += 1
            self.trace.append(site)
        for k in self.ks:
            if self.counter == k:  # symbolic comparison
                if FAULT_KINDS[self.kind] is InjectedStop and site.startswith("FrameIterator"):
                    continue      # StopIteration out of an iterator's __next__ is the protocol's normal end, not a fault
                b = self.builds[-1] if self.builds else {"id": -1, "constructed": 0, "cur": None, "yielded": 0}
                exc = FAULT_KINDS[self.kind](f"injected at invocation {self.counter} ({site})")
                self.records.append({"exc": exc, "site": site, "n": self.counter, "build": b["id"],
                                     "constructed": b["constructed"], "yielded": b["yielded"], "cur": b["cur"], "depth": len(self.builds)})
                raise exc

    def __enter__(self) -> "Injector":
        inj = self

        def wrap(mod: Any, name: str) -> None:
            orig = getattr(mod, name)

            def w(*a: Any, **kw: Any) -> Any:
                if name in ("contexts_active_in_frame",) and inj.builds:
                    inj.builds[-1]["cur"] = a[0]
                if name == "elaborate_frame" and inj.builds:
                    inj.builds[-1]["cur"] = a[0].pyframe
                if inj.after:
                    inj.counter += 1
                    inj.trace.append(name)
                    try:
                        r = orig(*a, **kw)
                    finally:
                        if name == "elaborate_frame" and inj.builds:
                            inj.builds[-1]["yielded"] += 1
                    # the hook ran to completion; now the fault (same invocation index)
                    if name == "elaborate_frame" and inj.builds:
                        inj.builds[-1]["yielded"] -= 1
                    try:
                        inj._maybe_raise(name, bump=False)
                    finally:
                        if name == "elaborate_frame" and inj.builds:
                            inj.builds[-1]["yielded"] += 1
                    return r
                inj._maybe_raise(name)
                try:
                    return orig(*a, **kw)
                finally:
                    if name == "elaborate_frame" and inj.builds:
                        inj.builds[-1]["yielded"] += 1

            for attr in ("register", "dispatch", "registry"):
                if hasattr(orig, attr):
                    setattr(w, attr, getattr(orig, attr))
            self.saved.append((mod, name, orig))
            setattr(mod, name, w)

        for mod, name in self.SITES:
            wrap(mod, name)
        # FrameIterator stepping
        FI = _customization.FrameIterator
        orig_next = FI.__next__

        def fi_next(s: Any) -> Any:
            inj._maybe_raise("FrameIterator.__next__")
            return orig_next(s)

        self.saved.append((FI, "__next__", orig_next))
        FI.__next__ = fi_next  # type: ignore[method-assign]
        # which Stack is being built
        orig_child = _extract.extract_child

        def child(stackitem: Any, *, for_task: bool) -> Stack:
            inj.build_seq += 1
            b = {"id": inj.build_seq, "constructed": 0, "cur": None, "yielded": 0}
            inj.builds.append(b)
            try:
                st = orig_child(stackitem, for_task=for_task)
                inj.build_results[b["id"]] = st
                return st
            finally:
                inj.builds.pop()

        self.saved.append((_extract, "extract_child", orig_child))
        _extract.extract_child = child  # type: ignore[assignment]
        # frames constructed so far in the current build (construction order is stack order)
        orig_post = Frame.__post_init__

        def post(fr: Any) -> None:
            if inj.builds:
                inj.builds[-1]["constructed"] += 1
            orig_post(fr)

        self.saved.append((Frame, "__post_init__", orig_post))
        Frame.__post_init__ = post  # type: ignore[method-assign]
        return self

    def __exit__(self, *a: Any) -> None:
        for obj, name, orig in reversed(self.saved):
            setattr(obj, name, orig)
        self.saved.clear()


def errors_of(st: Stack) -> List[BaseException]:
    e = st.error
    if e is None:
        return []
    if isinstance(e, BaseExceptionGroup):
        return list(e.exceptions)
    return [e]


def all_stacks(st: Stack, acc: Optional[List[Stack]] = None) -> List[Stack]:
    acc = [] if acc is None else acc
    acc.append(st)
    for f in st.frames:
        for c in f.contexts:
            _ctx_stacks(c, acc)
    return acc


def _ctx_stacks(c: Context, acc: List[Stack]) -> None:
    if c.inner_stack is not None:
        all_stacks(c.inner_stack, acc)
    for ch in c.children:
        if isinstance(ch, Stack):
            all_stacks(ch, acc)
        else:
            _ctx_stacks(ch, acc)


def fault_case(si: int, ks: List[Any], kind: int, after: bool = False) -> Dict[str, Any]:
    name, mk = SCENARIOS[si]
    obj, cleanup, is_chain = mk()
    try:
        base = stackscope.extract(obj)
        if si in (2, 3, 4):
            D.set_behaviour(S3_TREES[si - 2][1])
        if base.error is not None and not name.startswith("S3"):
            return {**out, "ok": False, "why": f"fault-free run has error {base.error!r}", "n_invocations": 0}
        with Injector(ks, kind, after) as inj:
            try:
                st = stackscope.extract(obj)
            except BaseException as ex:  # noqa
                return {"ok": False, "why": f"extract raised {type(ex).__name__}: {ex}", "n_invocations": inj.counter,
                        "fault": inj.records[0]["site"] if inj.records else None}
        n_inv = inj.counter
        recs = inj.records
        out: Dict[str, Any] = {"ok": True, "n_invocations": n_inv, "faults": [(r["site"], r["n"]) for r in recs]}
        if not isinstance(st, Stack):
            return {"ok": False, "why": "extract did not return a Stack", "n_invocations": n_inv}
        basepy = [f.pyframe for f in base.frames]
        gotpy = [f.pyframe for f in st.frames]
        if not recs:
            if gotpy != basepy or (st.error is not None and base.error is None):
                return {"ok": False, "why": "run without a fault differs from the fault-free run", "n_invocations": n_inv}
            return out
        everything = all_stacks(st)
        for r in recs:
            holder = inj.build_results.get(r["build"])
            found_in = [s for s in everything if any(e is r["exc"] for e in errors_of(s))]
            if not found_in:
                return {"ok": False, "why": f"injected exception at {r['site']}#{r['n']} is not retrievable from any .error"}
            if holder is not None and not any(s is holder for s in found_in) and any(s is holder for s in everything):
                return {**out, "ok": False, "why": f"exception from {r['site']}#{r['n']} recorded on a different Stack than the one being built"}
            if len(errors_of(found_in[0])) == 1 and isinstance(found_in[0].error, BaseExceptionGroup):
                return {**out, "ok": False, "why": "single error wrapped in an ExceptionGroup"}
        # outward frames survive (checked for the first fault)
        r = recs[0]
        top_level = r["depth"] == 1
        if len(recs) > 1:
            # with two faults the second may legitimately prune what the first kept; what was
            # already yielded by the top-level build before the first fault must still be there
            if top_level and gotpy[: r["yielded"]] != basepy[: r["yielded"]]:
                return {**out, "ok": False, "why": "frames yielded before the first of two faults were lost"}
        elif not top_level:
            if gotpy != basepy and len(recs) == 1:
                return {**out, "ok": False, "why": f"fault inside a nested stack ({r['site']}) changed the outer frames"}
        else:
            site = r["site"]
            if site in ("unwrap_stackitem", "FrameIterator.__next__"):
                # Frames are constructed in stack order ahead of any elaboration, so on a
                # plain chain every constructed frame is outward of the failing item; with
                # insert/replace hooks (S3) only the frames already yielded certainly are.
                c = r["constructed"] if is_chain else r["yielded"]
                if gotpy[:c] != basepy[:c]:
                    return {**out, "ok": False, "why": f"{site} fault after {c} frames were constructed lost some of them: got {len(gotpy)}"}
            else:
                cur = r["cur"]
                if cur is None or cur not in basepy:
                    return {**out, "ok": False, "why": "fault site frame unknown"}
                i = basepy.index(cur)
                if len(recs) == 1:
                    for a, b in zip(st.frames[:i], base.frames[:i]):
                        if a != b:
                            return {**out, "ok": False, "why": f"frame outward of the failure differs from the fault-free extraction (index {base.frames.index(b)})"}
                if len(gotpy) <= i or gotpy[: i + 1] != basepy[: i + 1]:
                    return {**out, "ok": False, "why": f"frame being elaborated when {site} failed is missing"}
                if site == "elaborate_frame":
                    if st.frames[i].hide:
                        return {**out, "ok": False, "why": "frame whose elaborate_frame failed is hidden"}
                    if is_chain and len(gotpy) != i + 1 and len(recs) == 1:
                        return {**out, "ok": False, "why": "callees kept after elaborate_frame failed"}
                elif len(recs) == 1 and gotpy != basepy:
                    return {**out, "ok": False, "why": f"{site} fault changed the frame series"}
        try:
            s = str(st)
            st.format_flat()
            st.as_stdlib_summary(show_contexts=True)
            "".join(st.format(ascii_only=True, show_hidden_frames=True))
            if not s.endswith("\n"):
                return {**out, "ok": False, "why": "str() not newline terminated"}
        except Exception as ex:
            return {**out, "ok": False, "why": f"result cannot be formatted: {ex!r}"}
        return out
    finally:
        cleanup()


def _shard(sh: Dict[str, Any]) -> Dict[str, Any]:
    si, pairs = sh["scenario"], sh["pairs"]
    cex: List[Dict[str, Any]] = []
    samples: List[Any] = []
    maxinv = [0]

    def harness(e: Engine) -> None:
        kind = e.choice("fault_kind", 2 if pairs else len(FAULT_KINDS))
        after = e.flag("fault_after_the_hook_ran") if not pairs else False
        k = e.int("k", 1, None)
        ks = [k]
        if pairs:
            k2 = e.int("k2", 1, None)
            e.assume(k2 > k)
            ks.append(k2)
        r = fault_case(si, ks, kind, after)
        maxinv[0] = max(maxinv[0], r.get("n_invocations", 0))
        if len(samples) < 1 and r.get("faults"):
            samples.append({"scenario": SCENARIOS[si][0], "faults": r["faults"]})
        if not r["ok"]:
            m = e.model()
            c = {"scenario": si, "ks": [m.get("k")] + ([m.get("k2")] if pairs else []), "kind": kind, "after": after, "why": r["why"]}
            key = re.sub(r"[0-9]+", "#", c["why"])[:60]
            if sum(1 for x in cex if re.sub(r"[0-9]+", "#", x["why"])[:60] == key) < 2:
                cex.append(c)

    eng = Engine(max_seconds=sh.get("budget", 300))
    eng.explore(harness)
    return par.shard_result(eng, shard=SCENARIOS[si][0] + ("/pairs" if pairs else ""), cex=cex, samples=samples,
                            extra={"hook_invocations_in_largest_scenario_run": 0})


class _Weird:
    def __getattr__(self, k: str) -> Any:
        raise RuntimeError("no attributes here")


def arbitrary_objects() -> List[Tuple[str, Any]]:
    async def co():
        pass

    c = co()
    c.close()

    def g():
        yield

    gi = g()
    next(gi)
    for _ in gi:
        pass
    return [("int", 42), ("None", None), ("class", CM), ("closed coroutine", c), ("exhausted generator", gi),
            ("str", "x"), ("list", [1, 2]), ("empty tuple", ()), ("unstarted thread", threading.Thread(target=print)),
            ("object", object()), ("module", sys), ("weird getattr", _Weird()), ("StackSlice() default", stackscope.StackSlice()),
            ("frame", sys._getframe(0)), ("lambda", lambda: 0), ("dict", {}), ("bytes", b"x"), ("float", 1.5)]


def object_case(i: int) -> Optional[str]:
    name, obj = arbitrary_objects()[i]
    try:
        st = stackscope.extract(obj)
    except BaseException as ex:  # noqa
        return f"extract({name}) raised {ex!r}"
    if not isinstance(st, Stack):
        return f"extract({name}) returned {type(st)}"
    try:
        str(st)
        st.format_flat()
    except Exception as ex:
        return f"result for {name} cannot be formatted: {ex!r}"
    return None


def _shard6(sh: Dict[str, Any]) -> Dict[str, Any]:
    cex: List[Dict[str, Any]] = []
    n = len(arbitrary_objects())

    def harness(e: Engine) -> None:
        i = e.choice("object", n)
        why = object_case(i)
        if why:
            cex.append({"object": i, "why": why})

    eng = Engine(max_seconds=120)
    eng.explore(harness)
    return par.shard_result(eng, shard="objects", cex=cex, samples=[{"objects": [a for a, _ in arbitrary_objects()]}])


def run(rep: Any, tier: str, seed: int) -> None:
    import z3

    rep.engine_name = f"symx (z3 {z3.get_version_string()})"
    rep.functions = FUNCTIONS
    rep.bounds = {"scenarios": [s for s, _ in SCENARIOS], "fault index k": "every integer >= 1 (unbounded z3 Int; one path per dynamic hook invocation + the beyond-the-end class)",
                  "fault pairs": "every k < k2 (quick: scenarios S1, S3a, S5; thorough: all)", "fault kinds": "single faults: subclasses of " + ", ".join(k.__mro__[1].__name__ for k in FAULT_KINDS) + "; pairs: the first two", "fault phase": "instead of the hook, or after the hook has run to completion (single faults)",
                  "fault sites": [n for _, n in Injector.SITES] + ["FrameIterator.__next__"]}
    rep.outside = ["BaseExceptions raised by hooks", "faults inside CPython itself", "scenarios outside the corpus"]
    rep.stubs = ["fault injectors: transparent wrappers rebinding the dispatcher names in _extract/_glue and FrameIterator.__next__ for one path",
                 "extract_child and Frame.__post_init__ are wrapped (transparent) to record which Stack was being built and how many frames existed"]
    shards = [{"scenario": i, "pairs": False} for i in range(len(SCENARIOS))]
    shards += [{"scenario": i, "pairs": True, "budget": 900} for i in range(len(SCENARIOS)) if tier == "thorough" or i in (0, 2, 6)]
    res = par.run_shards("harness.c05", "_shard", shards)
    for c in par.fold(rep, OB, res):
        rep.counterexample(OB, c, c["why"])
    res = par.run_shards("harness.c05", "_shard6", [{}])
    for c in par.fold(rep, OB6, res):
        rep.counterexample(OB6, c, c["why"])


def replay(c: Dict[str, Any]) -> Dict[str, Any]:
    if "object" in c:
        why = object_case(c["object"])
        return {"status": "reproduces" if why else "not-reproduced", "detail": why}
    r = fault_case(c["scenario"], c["ks"], c["kind"], bool(c.get("after")))
    return {"status": "reproduces" if not r["ok"] else "not-reproduced", "detail": r}


def classify(c: Dict[str, Any], out: Dict[str, Any]) -> Optional[str]:
    return None
