"""C07 -- thread stacks: exact when blocked; snapshot logic consistent-or-rejected when racing.

PARTIAL CLAIM (see `outside`).  Three legs, all symx:

A  real threads parked at a fixed point (in a body, inside a manager's __enter__, inside a
   manager's __exit__), symbolic depth and manager nesting per level, several threads at
   once: extract(thread) == the thread's own f_back chain, outermost first, with exactly the
   managers of the event log per level; unstarted / finished threads give no frames; a
   StackSlice whose outer frame lies on another thread's stack is found there.

B  the REAL BYTECODE of inspect_frame (types.FunctionType(real.__code__, stub globals)) run
   against a nondeterministic environment that stands for a target racing on another
   thread: every read of frame.f_lasti / the interpreter frame's stacktop / a value-stack
   slot is an event before which the world may move to another position (symbolic Ints),
   EXCEPT before a slot read when the real bytecode between the previous read and it contains
   nothing but instructions that cannot release the GIL (computed from the real code object on
   every run - the atomic "check f_lasti, then read the slot" step the source relies on).
   Assertion: when a snapshot is accepted, every slot in it was read at the accepted
   position, it is slots 0..n-1 of ONE attempt, n comes from a stacktop value bracketed by
   two reads of the accepted position, and the blocks are those of the accepted position;
   a quiescent valid frame is accepted; everything else is rejected by AssertionError or,
   after 10 attempts, RuntimeError.

C  the REAL unwrap_thread against a symbolic thread lifecycle (unstarted -> alive ->
   finished -> ident reused by another live thread, advancing by a symbolic amount before
   each read): a frame is reported only if it is the thread's own.
"""
from __future__ import annotations

import contextlib
import ctypes as real_ctypes
import dis
import io
import sys
import threading
import types
import warnings
from typing import Any, Dict, List, Optional, Tuple

import stackscope
from vlib import par
from vlib.symx import Engine, Infeasible

OB_A = "C07.blocked thread == its own frame chain with exact contexts; unstarted/finished: no frames (real threads)"
OB_B = "C07.snapshot accepted => one position, one attempt, bracketed stacktop, blocks of that position; else rejected (real inspect_frame bytecode, adversarial reads)"
OB_C = "C07.unwrap_thread reports only the thread's own frame (symbolic lifecycle / ident reuse)"
FUNCTIONS = ["stackscope._lowlevel_cpython_311.inspect_frame (its real code object, run with stub globals: FrameObject, ctypes, sys)",
             "stackscope._glue.glue_threading.unwrap_thread (real function, stub thread and sys._current_frames)",
             "stackscope._glue.unwrap_stackslice (search of other threads' stacks)", "stackscope._extract.extract (thread targets)"]


# =================================================================== leg A: real parked threads
class Mgr:
    def __init__(self, log: List[Any], tag: Any, park: Optional[str] = None, gate: Any = None):
        self.log, self.tag, self.park, self.gate = log, tag, park, gate

    def __enter__(self) -> "Mgr":
        if self.park == "enter":
            self.gate()
        self.log.append(("enter", self))
        return self

    def __exit__(self, *exc: Any) -> None:
        self.log.append(("exit", self))
        if self.park == "exit":
            self.gate()

    def __repr__(self) -> str:
        return f"<Mgr {self.tag}>"


class Parked:
    """A thread parked `depth` levels deep; level k holds nmgr[k] managers open around the call."""

    def __init__(self, depth: Any, nmgr: List[int], where: str, name: str):
        self.nmgr, self.where, self.name = nmgr, where, name
        # symbolic comparisons, made HERE on the exploring thread (z3 is not to be entered from the parked threads):
        # the solver fixes the depth
        self.lasts: List[bool] = []
        for k in range(64):
            self.lasts.append(not (k + 1 < depth))
            if self.lasts[-1]:
                break
        self.ready = threading.Event()
        self.release = threading.Event()
        self.level_frames: List[types.FrameType] = []
        self.level_mgrs: List[List[Mgr]] = []
        self.exiting: Optional[Mgr] = None
        self.entering: Optional[Mgr] = None
        self.park_frame: Optional[types.FrameType] = None
        self.thread = threading.Thread(target=self.run, name=name, daemon=True)

    def gate(self) -> None:
        self.ready.set()
        self.release.wait(30)

    def run(self) -> None:
        self.level(0)

    def level(self, k: int) -> None:
        self.level_frames.append(sys._getframe())
        mine: List[Mgr] = []
        self.level_mgrs.append(mine)
        n = self.nmgr[k] if k < len(self.nmgr) else 0
        last = self.lasts[k]
        log: List[Any] = []
        if n == 0:
            if last:
                self.gate()
            else:
                self.level(k + 1)
        elif n == 1:
            with Mgr(log, (self.name, k, 0)) as a:
                mine.append(a)
                self.body(k, last, log, mine)
        else:
            with Mgr(log, (self.name, k, 0)) as a, Mgr(log, (self.name, k, 1)) as b:
                mine.extend([a, b])
                self.body(k, last, log, mine)

    def body(self, k: int, last: bool, log: List[Any], mine: List[Mgr]) -> None:
        if not last:
            self.level(k + 1)
        elif self.where == "body":
            self.gate()
        elif self.where == "enter":
            # parked inside __enter__: the manager is not active yet
            self.park_frame = sys._getframe()
            m = Mgr(log, (self.name, k, "entering"), "enter", self.gate)
            self.entering = m
            with m:
                pass
        else:
            # parked inside __exit__: the manager is the exiting context of THIS frame
            self.park_frame = sys._getframe()
            m = Mgr(log, (self.name, k, "exiting"), "exit", self.gate)
            self.exiting = m
            with m:
                log.append("in body")


def own_chain(t: threading.Thread) -> List[types.FrameType]:
    f = sys._current_frames().get(t.ident)
    out = []
    while f is not None:
        out.append(f)
        f = f.f_back
    return out[::-1]


def parked_case(depths: List[Any], nmgrs: List[List[int]], wheres: List[str], target: int, slice_level: Optional[int]) -> Optional[str]:
    ps = [Parked(depths[i], nmgrs[i], wheres[i], f"t{i}") for i in range(len(depths))]
    why: Optional[str] = None
    try:
        st0 = stackscope.extract(ps[target].thread)
        if st0.frames or st0.error is not None:
            return f"a thread that has not started gives {len(st0.frames)} frames, error {st0.error!r}"
        for p in ps:
            p.thread.start()
        for p in ps:
            if not p.ready.wait(20):
                return "harness: thread did not park"
        p = ps[target]
        with warnings.catch_warnings(record=True) as w:
            warnings.simplefilter("always")
            with contextlib.redirect_stderr(io.StringIO()):
                st = stackscope.extract(p.thread)
        if w:
            return f"warning {w[0].message!s}"[:200]
        if st.error is not None:
            return f"error recorded: {st.error!r}"
        chain = own_chain(p.thread)
        got = [f.pyframe for f in st.frames]
        if [id(f) for f in got] != [id(f) for f in chain]:
            others = [f for f in got if all(f is not c for c in chain)]
            return (f"frames {[f.f_code.co_name for f in got]} != the thread's own chain {[f.f_code.co_name for f in chain]}"
                    + (f"; {len(others)} reported frame(s) are not the thread's" if others else ""))
        byframe = {id(f.pyframe): f for f in st.frames}
        for k, fr in enumerate(p.level_frames):
            sf = byframe.get(id(fr))
            if sf is None:
                return f"level {k} frame missing"
            exp = [(m, m is p.exiting) for m in p.level_mgrs[k]]
            gotc = [(c.obj, c.is_exiting) for c in sf.contexts]
            if [(id(a), b) for a, b in exp] != [(id(a), b) for a, b in gotc]:
                return f"level {k}: contexts {gotc} != {exp}"
        if p.park_frame is not None:
            sf = byframe.get(id(p.park_frame))
            if sf is None:
                return "the frame whose with statement is being entered / exited is missing"
            exp = [(p.exiting, True)] if p.exiting is not None else []
            gotc = [(c.obj, c.is_exiting) for c in sf.contexts]
            if [(id(a), b) for a, b in exp] != [(id(a), b) for a, b in gotc]:
                return f"frame parked inside __{p.where}__: contexts {gotc} != {exp}"
        for f in st.frames:
            nm = f.pyframe.f_code.co_name
            if f.pyframe.f_code.co_filename == threading.__file__ and nm in ("_bootstrap", "_bootstrap_inner", "run") and not f.hide:
                return f"bootstrap frame {nm} not hidden"
        if slice_level is not None and slice_level < len(p.level_frames):
            outer = p.level_frames[slice_level]
            st2 = stackscope.extract(stackscope.StackSlice(outer=outer))
            exp2 = chain[[id(c) for c in chain].index(id(outer)):]
            if st2.error is not None or [id(f.pyframe) for f in st2.frames] != [id(f) for f in exp2]:
                return (f"StackSlice(outer=<level {slice_level} of another thread>): {[f.pyframe.f_code.co_name for f in st2.frames]} "
                        f"error={st2.error!r}, expected {[f.f_code.co_name for f in exp2]}")
    finally:
        for p in ps:
            p.release.set()
        for p in ps:
            if p.thread.ident is not None:
                p.thread.join(20)
    st3 = stackscope.extract(ps[target].thread)
    if st3.frames or st3.error is not None:
        return f"a finished thread gives {len(st3.frames)} frames, error {st3.error!r}"
    return why


WHERES = ["body", "enter", "exit"]


def _a_shard(sh: Dict[str, Any]) -> Dict[str, Any]:
    cex: List[Dict[str, Any]] = []
    samples: List[Any] = []
    nthreads, maxd = sh["threads"], sh["maxdepth"]

    def harness(e: Engine) -> None:
        # the observed thread: any depth, 0-2 managers on each of its three outermost levels; a second parked thread
        # (same function, other instance) of depth 1-2 with one manager
        depths = [e.int(f"depth{i}", 1, maxd if i == 0 else 2) for i in range(nthreads)]
        nm = [[e.choice(f"mgrs{i}_{k}", 3) if (i == 0 and k < 3) else (1 if k == 0 else 0) for k in range(maxd)] for i in range(nthreads)]
        wheres = [WHERES[e.choice(f"where{i}", 3)] if i == 0 else "body" for i in range(nthreads)]
        target = 0
        sl = e.choice("slice_level", maxd + 1)
        why = parked_case(depths, nm, wheres, target, None if sl == maxd else sl)
        m = e.model()
        if len(samples) < 1:
            samples.append({"depths(one model)": [m.get(f"depth{i}") for i in range(nthreads)], "managers": nm, "parked": wheres})
        if why and len(cex) < 3:
            cex.append({"leg": "A", "depths": [m.get(f"depth{i}") for i in range(nthreads)], "nmgrs": nm, "wheres": wheres,
                        "slice_level": None if sl == maxd else sl, "why": why})

    eng = Engine(max_seconds=900)
    eng.explore(harness)
    return par.shard_result(eng, shard=f"parked threads={nthreads}", cex=cex, samples=samples)


# ====================================================== leg B: the retry loop, adversarial reads
ATOMIC = {"LOAD_FAST", "LOAD_FAST_CHECK", "LOAD_FAST_AND_CLEAR", "LOAD_CONST", "STORE_FAST", "COMPARE_OP", "POP_JUMP_IF_TRUE",
          "POP_JUMP_IF_FALSE", "POP_JUMP_IF_NONE", "POP_JUMP_IF_NOT_NONE", "POP_JUMP_FORWARD_IF_TRUE", "POP_JUMP_FORWARD_IF_FALSE",
          "NOP", "LOAD_ASSERTION_ERROR", "RAISE_VARARGS", "POP_TOP", "COPY", "SWAP", "CACHE", "EXTENDED_ARG", "JUMP_FORWARD",
          "PUSH_EXC_INFO", "CHECK_EXC_MATCH", "POP_EXCEPT", "RERAISE", "IS_OP"}


def target_module() -> Any:
    from stackscope import _lowlevel_cpython_311 as mod

    return mod


_SITES: Dict[str, Any] = {}


def site_table() -> Dict[str, Any]:
    """Instruction list of the REAL inspect_frame, for the may-the-world-move rule."""
    if not _SITES:
        code = target_module().inspect_frame.__code__
        ins = list(dis.get_instructions(code, show_caches=False))
        _SITES.update(code=code, ins=[(i.offset, i.opname) for i in ins], offs=[i.offset for i in ins])
    return _SITES


def may_move(prev: Optional[int], cur: Optional[int]) -> bool:
    """May the target thread have run between the environment read at bytecode offset `prev` and the one at `cur`
    of the real inspect_frame?  Only if control did not go straight from one to the other through instructions that
    cannot release the GIL (no call, no backward jump, no attribute / item / iterator protocol)."""
    if prev is None or cur is None or not prev < cur:
        return True
    for off, op in site_table()["ins"]:
        if prev < off < cur and op not in ATOMIC:
            return True
    return False


def _site() -> Optional[int]:
    """Offset of the instruction of the real inspect_frame that is performing this read.  (f_lasti may point into the
    inline cache of a specialised instruction, depending on how warm the code object is: normalised to the
    instruction's own offset so that the exploration is deterministic.)"""
    import bisect

    f = sys._getframe(2)
    tab = site_table()
    if f.f_code is not tab["code"]:
        return None
    offs = tab["offs"]
    return offs[bisect.bisect_right(offs, f.f_lasti) - 1]


class Token:
    def __init__(self, i: int, epoch: int, serial: int):
        self.i, self.epoch, self.serial = i, epoch, serial

    def __repr__(self) -> str:
        return f"<slot {self.i} read in epoch {self.epoch}>"


class World:
    def __init__(self, e: Any, code: types.CodeType, moves: int, wide: bool = False, preset: Optional[Dict[str, int]] = None):
        self.e, self.code, self.moves, self.wide = e, code, moves, wide
        preset = preset or {}
        self.maxoff = len(code.co_code)
        self.nlp = code.co_nlocals + len([c for c in code.co_cellvars if c not in code.co_varnames]) + len(code.co_freevars)
        self.epoch = 0
        self.lasti = [self._pos(0)]
        self.stacktop = [self._stacktop(0)]
        self.owner = [preset["owner0"] if "owner0" in preset else e.choice("owner0", 3)]
        self.null_index = (preset["null_slot"] if "null_slot" in preset else e.choice("null_slot", 2)) - 1     # -1: none, 0: the first slot is NULL
        self.events: List[Tuple[Any, ...]] = []
        self.last_site: Optional[int] = None
        # sharding of the schedule space by the event before which the FIRST move happens
        self.first_move: Optional[int] = preset.get("first_move")
        self.first_move_ge: Optional[int] = preset.get("first_move_ge")

    def _take_move(self, idx: int) -> bool:
        if self.epoch == 0 and self.first_move is not None:
            if idx > self.first_move:
                raise Infeasible()           # the first move of this schedule is elsewhere: another shard's path
            if idx < self.first_move:
                return False
            return True
        if self.epoch == 0 and self.first_move_ge is not None and idx < self.first_move_ge:
            return False
        return self.e.flag(f"move_before_event{idx}")

    def _pos(self, k: int) -> Any:
        return self.e.int(f"instr{k}", 0, self.maxoff // 2) * 2       # f_lasti is an instruction offset: even

    def _stacktop(self, k: int) -> Any:
        """-1 (executing), or a saved stack pointer.  wide: anything from -1 to one past the frame (exercises the bound
        asserts); otherwise -1 or a depth of 0..2 (keeps the number of slot reads, hence of preemption points, small)."""
        st = self.e.int(f"stacktop{k}", -1, self.nlp + self.code.co_stacksize + 1)
        if not self.wide:
            self.e.assume((st == -1) | ((st >= self.nlp) & (st <= self.nlp + 2)))
        return st

    def _event(self, site: Optional[int], slot: bool = False) -> None:
        # The atomic step the source relies on (and that is checked against the real bytecode) is "check f_lasti, then
        # read the slot": only a SLOT read is shielded from a move by atomic bytecode before it.  Every other read
        # (f_lasti, stacktop, owner) may always be preceded by a move: nothing may depend on two such reads agreeing.
        ok = self.moves > 0 and (not slot or may_move(self.last_site, site))
        self.last_site = site
        if ok and self._take_move(len(self.events)):
            self.moves -= 1
            self.epoch += 1
            new = self._pos(self.epoch)
            self.e.assume(new != self.lasti[-1])
            self.lasti.append(new)
            self.stacktop.append(self._stacktop(self.epoch))
            # the owner stays, or the frame finished meanwhile and is now owned by its frame object
            self.owner.append(2 if self.e.flag(f"finished_in_epoch{self.epoch}") else self.owner[-1])

    def read_owner(self, site: Optional[int]) -> int:
        self._event(site)
        self.events.append(("owner", self.epoch))
        return self.owner[self.epoch]

    def read_lasti(self, site: Optional[int]) -> Any:
        self._event(site)
        self.events.append(("lasti", self.epoch))
        return self.lasti[self.epoch]

    def read_stacktop(self, site: Optional[int]) -> Any:
        self._event(site)
        self.events.append(("stacktop", self.epoch))
        return self.stacktop[self.epoch]

    def read_slot(self, i: int, site: Optional[int]) -> Any:
        self._event(site, slot=True)
        self.events.append(("slot", self.epoch, i))
        if i == self.null_index:
            raise ValueError("PyObject is NULL")
        return Token(i, self.epoch, len(self.events))


class StormWorld(World):
    """The target moves between two positions before EVERY position read: no attempt can succeed."""

    def __init__(self, e: Any, code: types.CodeType):
        super().__init__(e, code, 0)
        self.lasti.append(self._pos(1))
        e.assume(self.lasti[1] != self.lasti[0])
        self.stacktop.append(self.stacktop[0])
        self.owner.append(self.owner[0])
        self.n = 0

    def read_lasti(self, site: Optional[int]) -> Any:
        self.n += 1
        self.epoch = self.n % 2
        self.events.append(("lasti", self.epoch))
        return self.lasti[self.epoch]


class FakeFrame:
    def __init__(self, w: World, code: types.CodeType):
        self._w = w
        self.f_code = code
        self.f_globals: Dict[str, Any] = {"__name__": "target"}
        self.f_builtins: Dict[str, Any] = {}

    @property
    def f_lasti(self) -> Any:
        return self._w.read_lasti(_site())


def stub_globals(w: World, frame: FakeFrame) -> Dict[str, Any]:
    mod = target_module()

    class IFrame:
        f_globals = id(frame.f_globals)
        f_builtins = id(frame.f_builtins)
        f_code = id(frame.f_code)
        frame_obj = 0

        @property
        def stacktop(self) -> Any:
            return w.read_stacktop(_site())

        @property
        def owner(self) -> int:
            return [mod.FRAME_OWNED_BY_THREAD, mod.FRAME_OWNED_BY_GENERATOR, mod.FRAME_OWNED_BY_FRAME_OBJECT][w.read_owner(_site())]

    iframe = IFrame()

    class Raw:
        ob_refcnt = 5
        ob_type = id(type(frame))
        f_frame = types.SimpleNamespace(contents=iframe)

    class FO:
        @staticmethod
        def from_address(addr: int) -> Any:
            assert addr == id(frame), "harness: FrameObject.from_address of something else"
            return Raw()

    class Arr:
        def __init__(self, n: Any):
            self.n = n

        def __getitem__(self, i: int) -> Any:
            return w.read_slot(i, _site())

    class ArrType:
        def __init__(self, n: Any):
            self.n = n

        def from_address(self, addr: Any) -> Arr:
            return Arr(self.n)

    class PyObj:
        def __mul__(self, n: Any) -> ArrType:
            return ArrType(n)

    cstub = types.SimpleNamespace(sizeof=real_ctypes.sizeof, addressof=lambda o: 0, py_object=PyObj())
    sstub = types.SimpleNamespace(implementation=sys.implementation, version_info=sys.version_info,
                                  getrefcount=lambda o: Raw.ob_refcnt + 1)
    g = dict(mod.__dict__)
    g.update(FrameObject=FO, ctypes=cstub, sys=sstub)
    return g


def real_inspect(w: World, frame: FakeFrame) -> Any:
    mod = target_module()
    fn = types.FunctionType(mod.inspect_frame.__code__, stub_globals(w, frame), "inspect_frame")
    return fn(frame)


def ref_table(code: types.CodeType) -> List[Tuple[int, int, int, int]]:
    return [(en.start, en.end, en.target, en.depth) for en in dis._parse_exception_table(code)]  # type: ignore[attr-defined]


def ref_lookup(tab: List[Tuple[int, int, int, int]], pos: Any) -> Optional[Tuple[int, int]]:
    for s, en, t, d in tab:
        if s <= pos and pos < en:
            return (t, d)
    return None


def ref_blocks(tab: List[Tuple[int, int, int, int]], pos: Any) -> List[Tuple[int, int]]:
    out = []
    cur = pos
    for _ in range(len(tab) + 1):
        r = ref_lookup(tab, cur)
        if r is None:
            break
        out.append(r)
        cur = r[0]
    return out[::-1]


def judge(w: World, code: types.CodeType, outcome: Tuple[str, Any]) -> Optional[str]:
    tab = ref_table(code)
    kind, val = outcome
    quiescent = w.epoch == 0 and not isinstance(w, StormWorld)
    if kind == "raised":
        if isinstance(val, AssertionError) or (isinstance(val, RuntimeError) and "consistent" in str(val)):
            if quiescent:
                st = w.stacktop[0]
                if st == -1 or (w.nlp <= st and st <= w.nlp + code.co_stacksize):
                    return f"a frame that never moved, with a valid stacktop, is rejected: {val!r}"
            return None
        return f"raised {val!r} (neither an accepted snapshot nor a documented rejection)"
    details = val
    if isinstance(w, StormWorld):
        return "accepted a snapshot although the position changed before every check"
    reads = [ev for ev in w.events if ev[0] == "lasti"]
    if not reads:
        return "accepted without ever reading the position"
    L = w.lasti[reads[-1][1]]
    toks = list(details.stack)
    for j, t in enumerate(toks):
        if t is None:
            if j != w.null_index:
                return f"slot {j} reported as None but was not NULL"
            continue
        if not isinstance(t, Token) or t.i != j:
            return f"the snapshot is not slots 0..n-1 of one attempt: {toks}"
        if w.lasti[t.epoch] != L:
            return f"slot {j} was read while the frame was at another position than the accepted one"
    own = [ev for ev in w.events if ev[0] == "owner"]
    if not own:
        return "accepted without reading the frame owner"
    if w.owner[own[-1][1]] == 2:
        if toks:
            return f"the frame is owned by its frame object (finished) in the accepted attempt, but the snapshot holds {len(toks)} value-stack slots"
    else:
        first_slot = next((k for k, ev in enumerate(w.events) if ev[0] == "slot" and toks and isinstance(toks[0], Token) and k + 1 == toks[0].serial), None)
        upto = first_slot if first_slot is not None else len(w.events)
        st_idx = max((k for k, ev in enumerate(w.events[:upto]) if ev[0] == "stacktop"), default=None)
        if st_idx is None:
            return "accepted without reading stacktop"
        before = [ev for ev in w.events[:st_idx] if ev[0] == "lasti"]
        after = [ev for ev in w.events[st_idx + 1:upto] if ev[0] == "lasti"]
        if not before or not after:
            return "the stacktop read is not bracketed by two position reads"
        if w.lasti[before[-1][1]] != L or w.lasti[after[0][1]] != L:
            return "the stacktop used for the snapshot was read between two reads of DIFFERENT positions"
        st = w.stacktop[w.events[st_idx][1]]
        if st == -1:
            r = ref_lookup(tab, L)
            exp_n = r[1] if r is not None else 0
        else:
            exp_n = st - w.nlp
        if exp_n != len(toks):
            return f"{len(toks)} slots in the snapshot, expected {exp_n}"
    gotb = [(b.handler, b.level) for b in details.blocks]
    expb = ref_blocks(tab, L)
    if gotb != expb:
        return f"blocks {gotb} are not those of the accepted position ({expb})"
    return None


# targets for leg B: real code objects with / without an exception table
def _tgt_plain(a: int, b: int) -> int:
    c = a + b
    return c * 2


def _tgt_with(m: Any, n: Any) -> Any:
    with m as x:
        try:
            with n:
                x.step(1, 2, 3)
        finally:
            x.done()
    return x


def _tgt_with1(m: Any) -> Any:
    with m:
        m.step(1)
    return m


TARGETS = {"plain": _tgt_plain, "with1": _tgt_with1, "with": _tgt_with}


def run_b(e: Any, tname: str, moves: int, storm: bool, preset: Optional[Dict[str, int]] = None) -> Tuple[World, Tuple[str, Any]]:
    from vlib.symx import Inconclusive

    code = TARGETS[tname].__code__
    w: World = StormWorld(e, code) if storm else World(e, code, moves, wide=(moves == 0), preset=preset)
    frame = FakeFrame(w, code)
    try:
        out: Tuple[str, Any] = ("accepted", real_inspect(w, frame))
    except Inconclusive:
        raise
    except Exception as ex:
        out = ("raised", ex)
    return w, out


class Script:
    """Concrete stand-in for the engine: replays one model."""

    def __init__(self, vals: Dict[str, Any]):
        self.vals = vals

    def int(self, name: str, lo: Optional[int] = None, hi: Optional[int] = None) -> int:
        return int(self.vals.get(name, lo if lo is not None else 0))

    def flag(self, name: str) -> bool:
        return bool(self.vals.get(name, False))

    def choice(self, name: str, n: int) -> int:
        return int(self.vals.get(name, 0))

    def assume(self, c: Any) -> None:
        if not c:
            raise Infeasible()

    def model(self) -> Dict[str, Any]:
        return dict(self.vals)


def _b_shard(sh: Dict[str, Any]) -> Dict[str, Any]:
    cex: List[Dict[str, Any]] = []
    samples: List[Any] = []
    tname, moves, storm, preset = sh["target"], sh["moves"], sh.get("storm", False), sh.get("preset")
    stats = {"accepted": 0, "accepted_after_retry": 0, "rejected": 0, "atomic_steps": 0}

    def harness(e: Engine) -> None:
        w, out = run_b(e, tname, moves, storm, preset)
        why = judge(w, TARGETS[tname].__code__, out)
        if out[0] == "accepted":
            stats["accepted"] += 1
            if w.epoch > 0:
                stats["accepted_after_retry"] += 1
        else:
            stats["rejected"] += 1
        if len(samples) < 1 and out[0] == "accepted" and w.epoch > 0:
            samples.append({"target": tname, "events": [ev[0] for ev in w.events][:40], "world_moves": w.epoch})
        if why and len(cex) < 3:
            m = e.model()
            m.update(preset or {})
            cex.append({"leg": "B", "target": tname, "moves": moves, "storm": storm, "model": m, "why": why})

    eng = Engine(max_seconds=900)
    eng.explore(harness)
    return par.shard_result(eng, shard=f"retry loop target={tname} moves<={moves}{' storm' if storm else ''}{' ' + str(preset) if preset else ''}", cex=cex, samples=samples,
                            extra={"snapshots_accepted": stats["accepted"], "accepted_after_a_retry": stats["accepted_after_retry"], "snapshots_rejected": stats["rejected"]})


def fidelity() -> Optional[str]:
    """The stub environment must give the same answer as the real ctypes reads on a real, quiescent frame."""
    mod = target_module()

    class M:
        def __enter__(self) -> "M":
            return self

        def __exit__(self, *a: Any) -> None:
            pass

    def g() -> Any:
        with M() as m:
            try:
                yield 1
            finally:
                m = None
        yield 2

    gen = g()
    next(gen)
    fr = gen.gi_frame
    real = mod.inspect_frame(fr)
    raw = mod.FrameObject.from_address(id(fr)).f_frame.contents
    vals = {"instr0": fr.f_lasti // 2, "stacktop0": raw.stacktop, "owner0": [mod.FRAME_OWNED_BY_THREAD, mod.FRAME_OWNED_BY_GENERATOR, mod.FRAME_OWNED_BY_FRAME_OBJECT].index(raw.owner),
            "null_slot": 0}
    w = World(Script(vals), fr.f_code, 0, wide=True)
    got = real_inspect(w, FakeFrame(w, fr.f_code))
    if len(got.stack) != len(real.stack):
        return f"stub run reads {len(got.stack)} slots, the real ctypes run {len(real.stack)}"
    if [(b.handler, b.level) for b in got.blocks] != [(b.handler, b.level) for b in real.blocks]:
        return "stub run and real run disagree on the blocks"
    # the atomic step the model relies on exists in the real bytecode: some slot read must follow a position read directly
    w2 = World(Script(dict(vals)), fr.f_code, 5)
    frozen = []
    orig = w2._event

    def spy(site: Optional[int], slot: bool = False) -> None:
        frozen.append(not may_move(w2.last_site, site))
        orig(site, slot)

    w2._event = spy  # type: ignore[method-assign]
    real_inspect(w2, FakeFrame(w2, fr.f_code))
    kinds = [ev[0] for ev in w2.events]
    if len(kinds) != len(frozen):
        return None
    if any(k == "slot" and not f for k, f in zip(kinds, frozen)) and len(real.stack) > 0:
        return "in the real bytecode a slot read is NOT reached from the preceding position check without a possible GIL release"
    return None


# ======================================================= leg C: unwrap_thread, symbolic lifecycle
def unwrap_thread_case(e: Any) -> Tuple[Optional[str], Dict[str, Any]]:
    from stackscope import _glue

    stackscope.extract(threading.current_thread())     # make sure the threading glue is registered
    fn = _glue.unwrap_stackitem.dispatch(threading.Thread)
    if getattr(fn, "__name__", "") != "unwrap_thread":
        return f"harness: unwrap_stackitem for Thread is {fn!r}", {}
    frame_t, frame_u, frame_main = sys._getframe(), sys._getframe(1), sys._getframe(0)
    T_IDENT = 7777
    stage = [e.int("stage0", 0, 3)]
    n = [0]
    trace: List[str] = []

    def advance() -> Any:
        n[0] += 1
        new = e.int(f"stage{n[0]}", 0, 3)
        e.assume(new >= stage[-1])
        stage.append(new)
        return new

    class StubThread:
        def is_alive(self) -> bool:
            s = advance()
            r = bool(s == 1)
            trace.append(f"is_alive->{r}")
            return r

        @property
        def ident(self) -> Optional[int]:
            s = advance()
            r = None if bool(s == 0) else T_IDENT
            trace.append(f"ident->{r}")
            return r

    snap: Dict[str, Any] = {}

    def current_frames() -> Dict[int, Any]:
        s = advance()
        d: Dict[int, Any] = {threading.get_ident(): frame_main}
        if s == 1:
            d[T_IDENT] = frame_t
            snap["owner"] = "T"
        elif s == 3:
            d[T_IDENT] = frame_u
            snap["owner"] = "U"
        else:
            snap["owner"] = None
        trace.append(f"_current_frames->{snap['owner']}")
        return d

    class SysStub:
        _current_frames = staticmethod(current_frames)

        def __getattr__(self, k: str) -> Any:
            return getattr(sys, k)

    saved = _glue.sys
    _glue.sys = SysStub()  # type: ignore[assignment]
    try:
        res = fn(StubThread())
    except Exception as ex:
        return f"raised {ex!r}", {"trace": trace}
    finally:
        _glue.sys = saved
    info = {"trace": trace}
    if isinstance(res, stackscope.StackSlice):
        if res.inner is not frame_t or snap.get("owner") != "T":
            return "reports a frame that belongs to another thread (the ident was reused)", info
        return None, info
    if res != []:
        return f"returned {res!r}", info
    if all(bool(s == 1) for s in stage[1:]):
        return "a thread that was alive throughout gives no frames", info
    return None, info


def _c_shard(sh: Dict[str, Any]) -> Dict[str, Any]:
    cex: List[Dict[str, Any]] = []
    samples: List[Any] = []

    def harness(e: Engine) -> None:
        why, info = unwrap_thread_case(e)
        if len(samples) < 1:
            samples.append({"unwrap_thread reads": info.get("trace")})
        if why and len(cex) < 2:
            cex.append({"leg": "C", "model": e.model(), "why": why, "trace": info.get("trace")})

    eng = Engine(max_seconds=300)
    eng.explore(harness)
    return par.shard_result(eng, shard="unwrap_thread lifecycle", cex=cex, samples=samples)


# ============================================================================== interface
def run(rep: Any, tier: str, seed: int) -> None:
    import z3

    rep.engine_name = f"symx (z3 {z3.get_version_string()})"
    rep.functions = FUNCTIONS
    maxd = 4 if tier == "quick" else 7
    moves = "plain<=2, with1<=1, with 0" if tier == "quick" else "plain<=3, with1<=2, with<=1"
    rep.bounds = {"A": f"the observed thread at depth 1..{maxd} (z3 Int compared by the recursion) with 0-2 managers on each of its three outermost levels, parked in a body / inside __enter__ / inside __exit__; "
                       f"optionally a second parked thread running the same functions (depth 1-2, observed depth then 1..{max(2, maxd - 2)}); "
                       "StackSlice(outer=any level of the other thread)",
                  "B": f"targets {list(TARGETS)}; position a z3 Int over every offset of the code object, stacktop a z3 Int from -1 to nlocalsplus+stacksize+1 (per epoch), owner in 3 kinds, "
                       f"the first slot NULL or not; the world moves at most ({moves}) times - each move picks a new position, a new stacktop (-1 or depth 0..2; any value -1..frame end+1 when it never moves) and possibly 'the frame finished' -, before any environment read (a slot read only if it is not separated from the previous read by atomic bytecode only); "
                       "plus the storm schedule (position alternates before every check)",
                  "C": "4 lifecycle stages, advancing by a symbolic amount before each of the reads unwrap_thread performs"}
    rep.outside = ["MEMORY SAFETY UNDER REAL OS SCHEDULES: whether CPython can release the GIL inside the atomic check-then-read step, whether a stale PyObject* can be dereferenced, interpreter crashes "
                   "- these depend on the interpreter, not on stackscope's source; not claimed",
                   "a target that leaves the accepted position and returns to it between the two reads that bracket the stacktop read with a DIFFERENT saved stacktop (accepted by design, see the comment in inspect_frame)",
                   "more world moves than the bound within one call", "CPython <= 3.10 (_lowlevel_cpython_310.inspect_frame)", "randomised stress with shortened switch intervals (a different technique)"]
    rep.stubs = ["FrameObject.from_address / InterpreterFrame fields / ctypes.py_object array / sys.getrefcount (B): answer from the symbolic world; validated against the real ctypes reads on a real suspended generator frame on every run",
                 "threading.Thread and sys._current_frames (C): symbolic lifecycle"]
    rep.assumptions = ["B: CPython switches threads only at calls, backward jumps and protocol dispatch; the instructions treated as atomic are " + ", ".join(sorted(ATOMIC)),
                       "C: a thread never restarts; its ident can be reused only after it finished",
                       "A: low solver leverage (the solver partitions depth and nesting)"]
    bad = fidelity()
    if bad:
        rep.harness_error("C07 stub fidelity: " + bad)
        return
    jobs = [("_a_shard", {"threads": 1, "maxdepth": maxd}), ("_a_shard", {"threads": 2, "maxdepth": max(2, maxd - 2)})]
    presets = [{"owner0": o, "null_slot": n_} for o in range(3) for n_ in range(2)]
    if tier == "quick":
        plan = {"plain": 2, "with1": 1, "with": 0}
    else:
        plan = {"plain": 3, "with1": 2, "with": 1}
    for t, top in plan.items():
        for mv in range(0, top + 1):
            if mv >= 2 and tier == "thorough":
                # split by the initial owner, the NULL slot and the event before which the first move happens
                FM = 12
                jobs += [("_b_shard", {"target": t, "moves": mv, "preset": dict(pr, first_move=j)}) for pr in presets for j in range(FM)]
                jobs += [("_b_shard", {"target": t, "moves": mv, "preset": dict(pr, first_move_ge=FM)}) for pr in presets]
            else:
                jobs.append(("_b_shard", {"target": t, "moves": mv}))
    jobs += [("_b_shard", {"target": t, "moves": 0, "storm": True}) for t in TARGETS]
    jobs += [("_c_shard", {})]
    res = par.run_mixed("harness.c07", jobs)
    for name, ob in (("_a_shard", OB_A), ("_b_shard", OB_B), ("_c_shard", OB_C)):
        for c in par.fold(rep, ob, [r for f, r in res if f == name]):
            rep.counterexample(ob, c, c["why"])


def replay(c: Dict[str, Any]) -> Dict[str, Any]:
    if c["leg"] == "A":
        why = parked_case(c["depths"], c["nmgrs"], c["wheres"], 0, c["slice_level"])
        return {"status": "reproduces" if why else "not-reproduced", "detail": why}
    if c["leg"] == "B":
        pre = {k: c["model"][k] for k in ("owner0", "null_slot", "first_move", "first_move_ge") if k in c["model"]}
        w, out = run_b(Script(c["model"]), c["target"], c["moves"], c.get("storm", False), pre or None)
        why = judge(w, TARGETS[c["target"]].__code__, out)
        return {"status": "reproduces" if why else "not-reproduced", "detail": {"why": why, "events": [list(ev) for ev in w.events][:60]}}
    why, info = unwrap_thread_case(Script(c["model"]))
    return {"status": "reproduces" if why else "not-reproduced", "detail": {"why": why, **info}}


def classify(c: Dict[str, Any], out: Dict[str, Any]) -> Optional[str]:
    return None
