"""C15 -- greenlet stacks: suspended, current, dead, unstarted, foreign-thread.

Engine: symx (solver-enumerated scenarios on REAL greenlets; LOW SOLVER LEVERAGE).
Real code: the unwrap_greenlet glue + unwrap_stackslice + extract.
Oracle: a shadow call log (each level of each greenlet registers its own frame) and, for
suspended greenlets, the gr_frame / f_back walk.
The greenback half (await_ bridges inside a Trio task with a portal) runs a real, deterministic
trio.run per path (as C14 does).
"""
from __future__ import annotations

import sys
import threading
from typing import Any, Dict, List, Optional

import greenlet

import stackscope
from vlib import par
from vlib.symx import Engine

OB = "C15.greenlet stacks (real greenlets)"
FUNCTIONS = ["stackscope._glue.glue_greenlet.unwrap_greenlet", "stackscope._glue.unwrap_stackslice", "stackscope._glue.get_true_caller",
             "stackscope._extract.extract"]


class World:
    def __init__(self, nglets: int, depths: List[int]):
        self.n = nglets
        self.depths = depths
        self.glets: List[Any] = []
        self.frames: List[List[Any]] = [[] for _ in range(nglets)]
        self.main = greenlet.getcurrent()
        self.action: Any = None
        self.result: Any = None


def _level(w: World, k: int, d: int) -> Any:
    w.frames[k].append(sys._getframe(0))
    if d > 0:
        return _level(w, k, d - 1)
    if k + 1 < w.n:
        g = greenlet.greenlet(lambda: _level(w, k + 1, w.depths[k + 1]))
        w.glets.append(g)
        g.switch()
        return None
    # innermost greenlet
    if w.action is not None:
        w.result = w.action(w)
    w.main.switch()
    return None


def build(nglets: int, depths: List[int], action: Any = None) -> World:
    w = World(nglets, depths)
    w.action = action
    g0 = greenlet.greenlet(lambda: _level(w, 0, depths[0]))
    w.glets.append(g0)
    g0.switch()
    return w


def finish(w: World) -> None:
    # let every greenlet run to completion, innermost first
    for g in reversed(w.glets):
        while not g.dead and g:
            try:
                g.switch()
            except Exception:
                break


def names(st: Any) -> List[str]:
    return [f.funcname for f in st.frames]


def compare(st: Any, expected: List[Any], what: str) -> Optional[str]:
    got = [f.pyframe for f in st.frames]
    if st.error is not None:
        return f"{what}: error {st.error!r}"
    if [id(x) for x in got] != [id(x) for x in expected]:
        return f"{what}: got {len(got)} frames {names(st)}, expected {len(expected)} {[f.f_code.co_name for f in expected]}"
    return None


def case_outside(nglets: int, depths: List[int], target: int) -> Optional[str]:
    w = build(nglets, depths)
    try:
        st = stackscope.extract(w.glets[target])
        # own segment per shadow log, plus (for all but the innermost) the lambda / switch frames are C-level:
        exp = gr_walk(w.glets[target])
        logged = w.frames[target]
        if [id(f) for f in exp if f in logged] != [id(f) for f in logged]:
            return "harness: shadow log and gr_frame walk disagree"
        return compare(st, exp, f"suspended greenlet {target} asked from the main greenlet")
    finally:
        finish(w)


def gr_walk(g: Any) -> List[Any]:
    out = []
    f = g.gr_frame
    while f is not None:
        out.append(f)
        f = f.f_back
    return out[::-1]


def case_inside(nglets: int, depths: List[int], target: int, ask_depth: int) -> Optional[str]:
    """Asked from inside the innermost greenlet (possibly a few calls deeper): target may be the
    asker itself (current) or a suspended ancestor."""
    def action(w: World) -> Any:
        def ask(d: int) -> Any:
            if d > 0:
                return ask(d - 1)
            me = sys._getframe(0)
            g = w.glets[target]
            st = stackscope.extract(g)
            if target == w.n - 1:
                # current greenlet: its own portion of the running stack, down to the asking frame
                exp = []
                f: Any = me
                while f is not None:
                    exp.append(f)
                    f = f.f_back
                return compare(st, exp[::-1], "the greenlet making the call")
            return compare(st, gr_walk(g), f"suspended ancestor {target} asked from descendant {w.n - 1}")

        return ask(ask_depth)

    w = build(nglets, depths, action)
    try:
        return w.result
    finally:
        finish(w)


def case_parent_state(state: int, depth: int) -> Optional[str]:
    """extract(current greenlet) from inside a greenlet whose PARENT is 0: the main greenlet,
    1: not yet started, 2: already dead.  Always exactly its own portion of the running stack."""
    main = greenlet.getcurrent()
    out: Dict[str, Any] = {}

    def entry() -> Any:
        if depth < 0:
            # the greenlet's entry function ITSELF asks (its frame has no f_back at all)
            me0 = sys._getframe(0)
            st0 = stackscope.extract(greenlet.getcurrent())
            out["why"] = compare(st0, [me0], f"current greenlet asking from its entry function, parent {['main', 'unstarted', 'dead'][state]}")
            main.switch()
            return None

        def ask(d: int) -> Any:
            if d > 0:
                return ask(d - 1)
            me = sys._getframe(0)
            st = stackscope.extract(greenlet.getcurrent())
            exp = []
            f: Any = me
            while f is not None:
                exp.append(f)
                f = f.f_back
            out["why"] = compare(st, exp[::-1], f"current greenlet whose parent is {['main', 'unstarted', 'dead'][state]}")
            main.switch()

        return ask(depth)

    if state == 0:
        parent: Any = main
    elif state == 1:
        parent = greenlet.greenlet(lambda *a: None)
    else:
        parent = greenlet.greenlet(lambda: None)
        parent.switch()
    g = greenlet.greenlet(entry, parent=parent)
    g.switch()
    try:
        # also from outside while suspended: its own frames
        if out.get("why") is None:
            st = stackscope.extract(g)
            out["why"] = compare(st, gr_walk(g), "the same greenlet, suspended, asked from main")
        return out.get("why")
    finally:
        try:
            g.throw(greenlet.GreenletExit)
        except Exception:
            pass


def case_lifecycle(kind: int) -> Optional[str]:
    if kind == 0:  # unstarted
        g = greenlet.greenlet(lambda: None)
        st = stackscope.extract(g)
        return None if (not st.frames and st.error is None) else f"unstarted greenlet: {names(st)} {st.error!r}"
    if kind == 1:  # dead
        g = greenlet.greenlet(lambda: 1)
        g.switch()
        st = stackscope.extract(g)
        return None if (not st.frames and st.error is None) else f"dead greenlet: {names(st)} {st.error!r}"
    # running in another thread
    box: Dict[str, Any] = {}
    ready, done = threading.Event(), threading.Event()

    def thread_main() -> None:
        def body() -> None:
            box["g"] = greenlet.getcurrent()
            ready.set()
            done.wait(20)

        if kind == 3:
            body()  # the thread's MAIN greenlet (it has no parent), running there
        else:
            greenlet.greenlet(body).switch()

    t = threading.Thread(target=thread_main, daemon=True)
    t.start()
    ready.wait(10)
    try:
        st = stackscope.extract(box["g"])
        if not isinstance(st.error, RuntimeError):
            return f"greenlet running in another thread: error is {st.error!r}, frames {names(st)}"
        if st.frames:
            return f"greenlet running in another thread: reported some other stack {names(st)}"
        return None
    finally:
        done.set()
        t.join(5)


OB2 = "C15.greenback await_ bridges (real trio.run per path)"


def greenback_case(depth: int, observe_from: int, with_contexts: bool, nested: bool = False) -> Optional[str]:
    """A Trio task with a greenback portal alternates async -> sync (plain call) -> await_(async) ... `depth`
    times; the innermost level blocks (observe_from 0: another task extracts the task) or extracts the
    task itself (1).  The visible frames must be exactly the levels in order; bridging internals hidden."""
    import warnings

    import greenback
    import trio
    import trio.testing

    box: Dict[str, Any] = {}

    def observe() -> None:
        with warnings.catch_warnings(record=True) as w:
            warnings.simplefilter("always")
            try:
                box["st"] = stackscope.extract(box["task"], with_contexts=with_contexts)
            except Exception as ex:
                box["raised"] = repr(ex)
        box["warnings"] = [str(x.message)[:160] for x in w]

    def sync_level(k: int) -> Any:
        if nested:
            # the task's synchronous code runs a helper greenlet of its own and calls await_ from inside it
            import greenlet

            def helper() -> Any:
                return greenback.await_(async_level(k + 1))

            return greenlet.greenlet(helper).switch()
        return greenback.await_(async_level(k + 1))

    async def async_level(k: int) -> Any:
        if k >= depth:
            if observe_from == 1:
                observe()
                return None
            box["ev"] = trio.Event()
            await box["ev"].wait()
            return None
        return sync_level(k)

    async def main() -> None:
        box["task"] = trio.lowlevel.current_task()
        await greenback.ensure_portal()
        await async_level(0)

    async def outer() -> None:
        async with trio.open_nursery() as n:
            n.start_soon(main)
            if observe_from == 0:
                await trio.testing.wait_all_tasks_blocked()
                observe()
                box["ev"].set()

    trio.run(outer)
    if "raised" in box:
        return f"extract raised {box['raised']}"
    st = box["st"]
    if st.error is not None:
        return f"error {st.error!r}"
    if box["warnings"]:
        return "warning: " + box["warnings"][0]
    vis = [f.funcname for f in st.frames if not f.hide]
    exp = ["greenback_shim", "main", "async_level"] + ["sync_level", "async_level"] * depth
    if nested and depth > 0:
        # What is claimed here: the task's own frames come first, up to the sync level that switched into the helper
        # greenlet; what follows may be nothing (the helper is not followed) or the continuation through the helper.
        own = ["greenback_shim", "main", "async_level", "sync_level"]
        if vis[: len(own)] != own:
            return f"with a helper greenlet inside the task: visible frames {vis} do not start with the task's own frames {own}"
        return None
    if observe_from == 0:
        exp = exp + ["wait"]
        if vis != exp:
            return f"visible frames {vis} != {exp}"
    else:
        if vis[: len(exp)] != exp or vis[len(exp):] not in ([], ["observe"]):
            return f"visible frames {vis} do not start with {exp}"
    return None


def _gb_shard(sh: Dict[str, Any]) -> Dict[str, Any]:
    cex: List[Dict[str, Any]] = []
    samples: List[Any] = []

    def harness(e: Engine) -> None:
        d = e.choice("alternation_depth", sh["maxdepth"] + 1)
        o = e.choice("observe_from", 2)
        wc = e.flag("with_contexts")
        nested = e.flag("helper_greenlet_inside_the_task") if o == 0 else False
        why = greenback_case(d, o, wc, nested)
        if len(samples) < 1:
            samples.append({"greenback_depth": d, "observe_from": o, "nested": nested})
        if why and len(cex) < 3:
            cex.append({"mode": 4, "depth": d, "observe_from": o, "wc": wc, "nested": nested, "why": why})

    eng = Engine(max_seconds=600)
    eng.explore(harness)
    return par.shard_result(eng, shard="greenback", cex=cex, samples=samples)


def _shard(sh: Dict[str, Any]) -> Dict[str, Any]:
    cex: List[Dict[str, Any]] = []
    samples: List[Any] = []
    N, D = sh["nglets"], sh["maxdepth"]

    def harness(e: Engine) -> None:
        mode = e.choice("asker", 4)  # 0 outside (main), 1 inside, 2 lifecycle, 3 parent state of the current greenlet
        if mode == 3:
            if N != 1:
                e.assume(False)
            stt, dep = e.choice("parent_state", 3), e.choice("depth", D + 2) - 1  # -1: the entry function itself asks
            why = case_parent_state(stt, dep)
            case = {"mode": 3, "state": stt, "depth": dep}
            if len(samples) < 1:
                samples.append(case)
            if why and len(cex) < 4:
                cex.append(dict(case, why=why))
            return
        if mode == 2:
            if N != 1:
                e.assume(False)
            k = e.choice("lifecycle", 4)
            why = case_lifecycle(k)
            case = {"mode": 2, "kind": k}
        else:
            depths = [e.choice(f"depth{j}", D + 1) for j in range(N)]
            target = e.choice("target", N)
            if mode == 0:
                why = case_outside(N, depths, target)
                case = {"mode": 0, "n": N, "depths": depths, "target": target}
            else:
                ad = e.choice("ask_depth", 2)
                why = case_inside(N, depths, target, ad)
                case = {"mode": 1, "n": N, "depths": depths, "target": target, "ask_depth": ad}
        if len(samples) < 1:
            samples.append(case)
        if why and len(cex) < 4:
            cex.append(dict(case, why=why))

    eng = Engine(max_seconds=300)
    eng.explore(harness)
    return par.shard_result(eng, shard=f"n={N}", cex=cex, samples=samples)


def run(rep: Any, tier: str, seed: int) -> None:
    import z3

    rep.engine_name = f"symx (z3 {z3.get_version_string()})"
    rep.functions = FUNCTIONS
    N = 3 if tier == "quick" else 4
    D = 2 if tier == "quick" else 3
    rep.bounds = {"parent chain": f"1..{N} nested greenlets", "call depth per greenlet": f"0..{D} (current greenlet: also asked from its entry function itself)", "asker": ["main greenlet (outside)", "the target itself", "a descendant, 0..1 calls deeper"],
                  "parent of the current greenlet": ["main", "unstarted", "dead"], "lifecycle": ["unstarted", "dead", "child greenlet running in another thread", "main greenlet of another thread running there"]}
    rep.bounds["greenback"] = f"sync/async alternation depth 0..{3 if tier == 'quick' else 6} inside a Trio task with a portal, observed from another task and from the innermost level, with_contexts on/off"
    rep.outside = ["PyPy greenlets", "chains deeper than the bound", "greenback.async_context / with_portal_run variants", "free-running threads"]
    rep.assumptions = ["low solver leverage: finite scenario product certified complete by the solver"]
    res = par.run_mixed("harness.c15", [("_shard", {"nglets": n, "maxdepth": D}) for n in range(1, N + 1)]
                        + [("_gb_shard", {"maxdepth": 3 if tier == "quick" else 6})])
    for c in par.fold(rep, OB, [r for f, r in res if f == "_shard"]):
        rep.counterexample(OB, c, c["why"])
    for c in par.fold(rep, OB2, [r for f, r in res if f == "_gb_shard"]):
        rep.counterexample(OB2, c, c["why"])


def replay(c: Dict[str, Any]) -> Dict[str, Any]:
    if c["mode"] == 4:
        why = greenback_case(c["depth"], c["observe_from"], c["wc"], bool(c.get("nested")))
    elif c["mode"] == 3:
        why = case_parent_state(c["state"], c["depth"])
    elif c["mode"] == 2:
        why = case_lifecycle(c["kind"])
    elif c["mode"] == 0:
        why = case_outside(c["n"], c["depths"], c["target"])
    else:
        why = case_inside(c["n"], c["depths"], c["target"], c["ask_depth"])
    return {"status": "reproduces" if why else "not-reproduced", "detail": why}


def classify(c: Dict[str, Any], out: Dict[str, Any]) -> Optional[str]:
    if c.get("mode") == 1 and "suspended ancestor" in str(out.get("detail")):
        return "F8"
    return None
