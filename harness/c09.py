"""C09 -- generator-based managers and exit stacks unfold into the exact nested tree.

Engine: symx (solver-enumerated registration sequences; LOW SOLVER LEVERAGE).
Real code: the contextlib glue (elaborate_generatorbased_contextmanager, elaborate_exit_stack),
fill_context recursion, extract_child, on REAL contextlib objects.
Oracle: the construction log (one child per registration, in order).
"""
from __future__ import annotations

import contextlib
import sys
import types
from typing import Any, Dict, List, Optional, Tuple

import stackscope
from stackscope import Context, Stack
from vlib import par
from vlib.symx import Engine

OB1 = "C09.exit-stack children == construction log"
OB2 = "C09.generator-based managers: inner_stack iff not exiting"
FUNCTIONS = ["stackscope._glue.glue_contextlib.elaborate_exit_stack", "stackscope._glue.glue_contextlib.elaborate_generatorbased_contextmanager",
             "stackscope._extract.fill_context", "stackscope._extract.extract_child", "stackscope._lowlevel.contexts_active_in_frame"]


class PM:
    def __init__(self, name: str):
        self.name = name

    def __repr__(self) -> str:
        return f"<PM {self.name}>"

    def __enter__(self) -> "PM":
        return self

    def __exit__(self, *a: Any) -> None:
        return None

    def close_ish(self, *a: Any) -> None:
        return None

    async def __aenter__(self) -> "PM":
        return self

    async def __aexit__(self, *a: Any) -> None:
        return None

    async def aclose_ish(self, *a: Any) -> None:
        return None


@contextlib.contextmanager
def gcm(tag: str):
    with PM("in-" + tag):
        yield tag


def _deleg(tag: str):
    with PM("deleg-" + tag):
        yield tag


@contextlib.contextmanager
def gcm_yf(tag: str):
    yield from _deleg(tag)


@contextlib.asynccontextmanager
async def agcm(tag: str):
    async with PM("ain-" + tag):
        yield tag


def plain_fn(*a: Any, **k: Any) -> None:
    return None


async def plain_afn(*a: Any) -> None:
    return None


@types.coroutine
def trap() -> Any:
    yield "trap"


# registration operations: (name, needs_async_stack)
SYNC_OPS = ["enter_context:PM", "enter_context:GCM", "enter_context:GCM_YF", "enter_context:NESTED", "push:PM", "push:GCM",
            "push:function", "push:bound_method", "callback"]
ASYNC_OPS = ["enter_async_context:PM", "enter_async_context:AGCM", "push_async_exit:PM", "push_async_exit:function", "push_async_callback"]


def apply_sync(stack: Any, op: str, j: int, log: List[Dict[str, Any]]) -> None:
    tag = f"op{j}"
    kind = op.split(":")[1] if ":" in op else ""
    if op.startswith("enter_context") or op.startswith("push:PM") or op.startswith("push:GCM"):
        if kind == "PM":
            m: Any = PM(tag)
        elif kind == "GCM":
            m = gcm(tag)
        elif kind == "GCM_YF":
            m = gcm_yf(tag)
        else:
            m = contextlib.ExitStack()
            inner_pm = PM("nested-" + tag)
            m.enter_context(inner_pm)
            m.callback(plain_fn, "n")
        if op.startswith("enter_context"):
            stack.enter_context(m)
        else:
            if kind == "GCM":
                m.__enter__()
            stack.push(m)
        log.append({"methods": ("enter_context", "push"), "obj": m, "async": False, "kind": kind,
                    "gen_frame": getattr(getattr(m, "gen", None), "gi_frame", None)})
    elif op == "push:function":
        def exit_fn(*a: Any) -> None:
            return None

        stack.push(exit_fn)
        log.append({"methods": ("push",), "obj": exit_fn, "async": False, "kind": "fn"})
    elif op == "push:bound_method":
        m = PM(tag)
        stack.push(m.close_ish)
        log.append({"methods": ("push",), "obj": m, "async": False, "kind": "bound"})
    elif op == "callback":
        stack.callback(plain_fn, tag, k=1)
        log.append({"methods": ("callback",), "obj": plain_fn, "async": False, "kind": "callback"})
    else:
        raise AssertionError(op)


async def apply_async(stack: Any, op: str, j: int, log: List[Dict[str, Any]]) -> None:
    tag = f"op{j}"
    if op == "enter_async_context:PM":
        m: Any = PM(tag)
        await stack.enter_async_context(m)
        log.append({"methods": ("enter_async_context", "push_async_exit"), "obj": m, "async": True, "kind": "PM"})
    elif op == "enter_async_context:AGCM":
        m = agcm(tag)
        await stack.enter_async_context(m)
        log.append({"methods": ("enter_async_context", "push_async_exit"), "obj": m, "async": True, "kind": "AGCM",
                    "gen_frame": m.gen.ag_frame})
    elif op == "push_async_exit:PM":
        m = PM(tag)
        stack.push_async_exit(m)
        log.append({"methods": ("enter_async_context", "push_async_exit"), "obj": m, "async": True, "kind": "PM"})
    elif op == "push_async_exit:function":
        async def aexit_fn(*a: Any) -> None:
            return None

        stack.push_async_exit(aexit_fn)
        log.append({"methods": ("push_async_exit",), "obj": aexit_fn, "async": True, "kind": "fn"})
    elif op == "push_async_callback":
        stack.push_async_callback(plain_afn, tag)
        log.append({"methods": ("push_async_callback",), "obj": plain_afn, "async": True, "kind": "callback"})
    else:
        apply_sync(stack, op, j, log)


def identifies(obj: Any, target: Any) -> bool:
    return obj is target or getattr(obj, "__wrapped__", None) is target or getattr(obj, "__self__", None) is target


def check_children(ctx: Context, log: List[Dict[str, Any]], stack_obj: Any, varname: str) -> Optional[str]:
    if ctx.obj is not stack_obj:
        return f"context obj is {ctx.obj!r}, not the exit stack"
    kids = list(ctx.children)
    if len(kids) != len(log):
        return f"{len(kids)} children for {len(log)} registrations"
    for j, (k, rec) in enumerate(zip(kids, log)):
        if not isinstance(k, Context):
            return f"child {j} is not a Context"
        if not identifies(k.obj, rec["obj"]):
            return f"child {j}: obj {k.obj!r} does not identify the registered {rec['obj']!r}"
        if bool(k.is_async) != rec["async"]:
            return f"child {j}: is_async={k.is_async} for a {'async' if rec['async'] else 'sync'} registration"
        d = k.description or ""
        if not any(f".{m}(" in d for m in rec["methods"]):
            return f"child {j}: description {d!r} does not name the registration method {rec['methods']}"
        if not d.replace("await ", "").startswith(varname + "."):
            return f"child {j}: description {d!r} does not start with the stack's name"
        if k.varname != f"{varname}[{j}]":
            return f"child {j}: varname {k.varname!r}, expected {varname}[{j}]"
        # recursive unfolding
        if rec["kind"] in ("GCM", "GCM_YF", "AGCM"):
            ins = k.inner_stack
            if ins is None:
                return f"child {j}: generator-based manager without inner_stack"
            want = 2 if rec["kind"] == "GCM_YF" else 1
            fr0 = rec["gen_frame"]  # captured at registration (the generator may be finished by now)
            if len(ins.frames) != want or ins.frames[0].pyframe is not fr0:
                return f"child {j}: inner_stack is not the extraction of the manager's generator ({[f.funcname for f in ins.frames]})"
            last = ins.frames[-1]
            if len(last.contexts) != 1 or not isinstance(last.contexts[0].obj, PM):
                return f"child {j}: the generator frame's own contexts are not unfolded"
        elif rec["kind"] == "NESTED":
            sub = list(k.children)
            if len(sub) != 2 or not isinstance(sub[0], Context) or not isinstance(sub[0].obj, PM) or "callback" not in (sub[1].description or ""):
                return f"child {j}: nested exit stack not unfolded: {[getattr(s, 'description', None) for s in sub]}"
            # the entries of the nested stack are labelled after IT: <stack>[j][i], "<stack>[j].callback(...)"
            for i, s_ in enumerate(sub):
                if s_.varname != f"{varname}[{j}][{i}]" or not (s_.description or "").replace("await ", "").startswith(f"{varname}[{j}]."):
                    return f"child {j}: entry {i} of the nested stack is labelled {s_.varname!r} / {s_.description!r}, expected {varname}[{j}][{i}] / {varname}[{j}].<method>(...)"
        elif k.inner_stack is not None or list(k.children):
            return f"child {j}: plain registration has substructure"
    return None


def exiting_stack_case(is_async_stack: bool, ops: List[str]) -> Optional[str]:
    """The exit stack observed WHILE IT IS ITSELF EXITING: the registrations that are still pending
    are exactly the ones whose exit has not started, so they must be unfolded as usual."""
    log: List[Dict[str, Any]] = []
    box: Dict[str, Any] = {}
    if not is_async_stack:
        def asker(*a: Any) -> None:
            box["st"] = stackscope.extract_since(box["frame"])

        def holder() -> None:
            box["frame"] = sys._getframe(0)
            with contextlib.ExitStack() as es:
                box["stack"] = es
                for j, op in enumerate(ops):
                    apply_sync(es, op, j, log)
                es.push(asker)  # registered last, so it runs first while everything else is pending

        holder()
        st = box["st"]
        closer = None
    else:
        async def aasker(*a: Any) -> None:
            await trap()

        async def aholder() -> None:
            async with contextlib.AsyncExitStack() as es:
                box["stack"] = es
                for j, op in enumerate(ops):
                    await apply_async(es, op, j, log)
                es.push_async_exit(aasker)

        co = aholder()
        co.send(None)  # suspended inside the stack's __aexit__, in aasker
        st = stackscope.extract(co)
        closer = co
    try:
        if st.error is not None:
            return f"error {st.error!r}"
        ctxs = st.frames[0].contexts
        if len(ctxs) != 1 or not ctxs[0].is_exiting:
            return f"holder frame contexts while the stack exits: {ctxs}"
        why = check_children(ctxs[0], log, box["stack"], "es")
        if why:
            return "while the stack is exiting: " + why
        for j, k in enumerate(ctxs[0].children):
            if getattr(k, "is_exiting", False):
                return f"while the stack is exiting: pending child {j} is marked is_exiting"
        return None
    finally:
        if closer is not None:
            closer.close()


def stack_case(is_async_stack: bool, ops: List[str], holder_kind: int) -> Optional[str]:
    if holder_kind == 2:
        return exiting_stack_case(is_async_stack, ops)
    log: List[Dict[str, Any]] = []
    box: Dict[str, Any] = {}
    if not is_async_stack:
        def holder() -> Any:
            with contextlib.ExitStack() as es:
                box["stack"] = es
                for j, op in enumerate(ops):
                    apply_sync(es, op, j, log)
                yield

        async def aholder() -> Any:
            with contextlib.ExitStack() as es:
                box["stack"] = es
                for j, op in enumerate(ops):
                    apply_sync(es, op, j, log)
                await trap()

        x: Any = holder() if holder_kind == 0 else aholder()
        if holder_kind == 0:
            next(x)
        else:
            x.send(None)
    else:
        async def aholder2() -> Any:
            async with contextlib.AsyncExitStack() as es:
                box["stack"] = es
                for j, op in enumerate(ops):
                    await apply_async(es, op, j, log)
                await trap()

        x = aholder2()
        x.send(None)
    try:
        st = stackscope.extract(x)
        if st.error is not None:
            return f"error {st.error!r}"
        ctxs = st.frames[0].contexts
        if len(ctxs) != 1:
            return f"holder frame has {len(ctxs)} contexts"
        why = check_children(ctxs[0], log, box["stack"], "es")
        if why:
            return why
        if bool(ctxs[0].is_async) != is_async_stack:
            return "exit stack context has wrong is_async"
        # formatting of the whole tree still works
        str(st)
        return None
    finally:
        try:
            x.close()
        except Exception:
            pass


# ----------------------------------------------------------------- exiting vs not
def exiting_case(kind: int, depth: int) -> Optional[str]:
    """kind 0: @asynccontextmanager suspended in its exit part (observed from outside);
    kind 1: @contextmanager whose exit part is running and asks for the stack itself;
    kind 2/3: the same managers observed while NOT exiting (inner_stack expected)."""
    if kind in (0, 2):
        @contextlib.asynccontextmanager
        async def m() -> Any:
            try:
                yield 1
            finally:
                if kind == 0:
                    await trap()

        async def user() -> Any:
            async with m() as v:  # noqa: F841
                if kind == 2:
                    pass
            return None

        async def user2() -> Any:
            mm = m()
            box["m"] = mm
            async with mm:
                await trap()

        box: Dict[str, Any] = {}
        if kind == 0:
            async def user0() -> Any:
                mm = m()
                box["m"] = mm
                async with mm:
                    pass

            co = user0()
            co.send(None)  # suspended inside __aexit__ -> the generator's finally
            st = stackscope.extract(co)
            c = st.frames[0].contexts
            try:
                if len(c) != 1 or not c[0].is_exiting:
                    return f"exiting async generator-based manager: contexts {c}"
                if c[0].obj is not box["m"]:
                    return f"exiting context obj is {c[0].obj!r}"
                if c[0].inner_stack is not None:
                    return "exiting generator-based manager has an inner_stack"
                fr = box["m"].gen.ag_frame
                if not any(f.pyframe is fr for f in st.frames[1:]):
                    return f"generator frame of the exiting manager is not in the main frame series: {[f.funcname for f in st.frames]}"
                return None
            finally:
                co.close()
        co = user2()
        co.send(None)
        st = stackscope.extract(co)
        try:
            c = st.frames[0].contexts
            if len(c) != 1 or c[0].is_exiting or c[0].inner_stack is None:
                return f"active generator-based manager: {c}"
            if c[0].inner_stack.frames[0].pyframe is not box["m"].gen.ag_frame:
                return "inner_stack is not the manager's generator"
            if any(f.pyframe is box["m"].gen.ag_frame for f in st.frames):
                return "generator frame of a non-exiting manager appears in the main series"
            return None
        finally:
            co.close()
    # sync, running: the generator's exit part calls extract_since itself
    out: List[Any] = []
    box2: Dict[str, Any] = {}

    def ask(d: int) -> None:
        if d > 0:
            return ask(d - 1)
        out.append(stackscope.extract_since(box2["outer_frame"]))

    @contextlib.contextmanager
    def sm() -> Any:
        try:
            if kind == 3:
                ask(depth)
            yield 1
        finally:
            if kind == 1:
                ask(depth)

    def outer() -> None:
        box2["outer_frame"] = sys._getframe(0)
        mm = sm()
        box2["m"] = mm
        with mm:
            pass

    outer()
    st = out[0]
    c = st.frames[0].contexts
    gen_fr = [f for f in st.frames if f.funcname == "sm"]
    if kind == 1:
        if len(c) != 1 or not c[0].is_exiting or c[0].inner_stack is not None:
            return f"exiting sync generator-based manager: {c}"
        if c[0].obj is not box2["m"]:
            return f"exiting context obj is {c[0].obj!r}"
        if len(gen_fr) != 1:
            return f"generator frame not in the main series: {[f.funcname for f in st.frames]}"
    else:
        # asked from inside __enter__: the manager is not entered yet, so it is not listed
        if c:
            return f"manager listed while its __enter__ is still running: {c}"
    return None


def _shard(sh: Dict[str, Any]) -> Dict[str, Any]:
    cex: List[Dict[str, Any]] = []
    samples: List[Any] = []
    what = sh["what"]

    def harness(e: Engine) -> None:
        if what == "exiting":
            k, d = e.choice("kind", 4), e.choice("depth", 2)
            why = exiting_case(k, d)
            case = {"what": "exiting", "kind": k, "depth": d}
        else:
            is_async = what == "async"
            allops = (SYNC_OPS + ASYNC_OPS) if is_async else SYNC_OPS
            n = sh["len"]
            ops = [allops[e.choice(f"op{j}", len(allops))] for j in range(n)]
            hk = [1, 2][e.choice("holder", 2)] if is_async else e.choice("holder", 3)
            why = stack_case(is_async, ops, hk)
            case = {"what": what, "ops": ops, "holder": hk}
        if len(samples) < 1:
            samples.append(case)
        if why and len(cex) < 4:
            cex.append(dict(case, why=why))

    eng = Engine(max_seconds=600)
    eng.explore(harness)
    return par.shard_result(eng, shard=f"{what}/{sh.get('len')}", cex=cex, samples=samples)


def run(rep: Any, tier: str, seed: int) -> None:
    import z3

    rep.engine_name = f"symx (z3 {z3.get_version_string()})"
    rep.functions = FUNCTIONS
    L = 3 if tier == "quick" else 4
    rep.bounds = {"registrations": f"sequences of 0..{L} (async stack: 0..{L - 1 if tier == 'quick' else L - 1}) over sync ops {SYNC_OPS} and async ops {ASYNC_OPS}",
                  "depth": "2 (nested exit stack / generator-based manager with its own with-block)",
                  "stack observed": "suspended in its body (generator / coroutine holder) and while the stack itself is exiting (from its last-registered callback)",
                  "exiting": "async generator-based manager suspended in its exit part; sync one whose exit part runs and asks; both also while not exiting"}
    rep.outside = ["async_generator backport managers", "trees deeper than 2",
                   "stack.push(manager) and stack.enter_context(manager) are indistinguishable after registration: either method name is accepted"]
    rep.assumptions = ["low solver leverage: finite registration sequences certified complete by the solver",
                       "obj 'identifies' the registered callable if it is it, wraps it (__wrapped__) or is bound to it (__self__)"]
    shards: List[Dict[str, Any]] = [{"what": "sync", "len": n} for n in range(0, L + 1)]
    shards += [{"what": "async", "len": n} for n in range(0, L)]
    shards += [{"what": "exiting"}]
    res = par.run_shards("harness.c09", "_shard", shards)
    for r in res:
        name = OB2 if "exiting" in str(r.get("shard")) else OB1
        for c in par.fold(rep, name, [r]):
            rep.counterexample(name, c, c["why"])


def replay(c: Dict[str, Any]) -> Dict[str, Any]:
    if c["what"] == "exiting":
        why = exiting_case(c["kind"], c["depth"])
    else:
        why = stack_case(c["what"] == "async", c["ops"], c["holder"])
    return {"status": "reproduces" if why else "not-reproduced", "detail": why}


def classify(c: Dict[str, Any], out: Dict[str, Any]) -> Optional[str]:
    return None
