"""C12 -- customizations bind to exactly the code that runs; every customize option works.

Four obligations, all symx over the real _code_dispatch / _customization code:
 1 IdentityDict == model mapping under symbolic operation sequences (keys: two
   equal-but-distinct unhashable lists + one object; values symbolic ints)
 2 code_dispatch is keyed by identity: two equal-but-distinct code objects
 3 get_code through wrapper towers and nested-name paths
 4 customize(hide, hide_line, prune, elaborate) x {direct, decorator}
"""
from __future__ import annotations

import os

import functools
import sys
import types
from typing import Any, Dict, List, Optional, Tuple

import stackscope
from stackscope import StackSlice
from stackscope._code_dispatch import IdentityDict, code_dispatch, get_code
from stackscope._customization import customize, elaborate_frame
from vlib import par
from vlib.symx import Engine

OB1 = "C12.IdentityDict==model"
OB2 = "C12.dispatch-by-identity"
OB3 = "C12.get_code(towers,nested names)"
OB4 = "C12.customize(options x forms)"
FUNCTIONS = ["stackscope._code_dispatch.IdentityDict (all methods + MutableMapping mixins)",
             "stackscope._code_dispatch.get_code", "stackscope._code_dispatch.code_dispatch (register/dispatch/wrapper)",
             "stackscope._customization.customize / customize_it", "stackscope._customization.elaborate_frame"]

# ------------------------------------------------------------------ 1
OPS = ["set", "get", "del", "pop", "popd", "popnone", "setdefault", "contains", "len", "iter", "popitem", "clear", "getd", "items", "eqcopy", "update", "setdefault0"]


def idict_run(ops: List[Tuple[str, int, Any]]) -> Optional[str]:
    """ops: (op, key index, value).  Returns None if IdentityDict agrees with the model."""
    keys: List[Any] = [[1], [1], object()]
    assert keys[0] == keys[1] and keys[0] is not keys[1]
    d: IdentityDict[Any, Any] = IdentityDict()
    model: List[List[Any]] = []  # [key_idx, value] in insertion order

    def find(k: int) -> int:
        for j, (kk, _) in enumerate(model):
            if kk == k:
                return j
        return -1

    sentinel = object()
    for step, (op, k, v) in enumerate(ops):
        key = keys[k]
        j = find(k)
        try:
            if op == "set":
                d[key] = v
                if j >= 0:
                    model[j][1] = v
                else:
                    model.append([k, v])
            elif op == "get":
                try:
                    got = d[key]
                    if j < 0 or got is not model[j][1]:
                        return f"step {step}: d[k{k}] returned {got!r}"
                except KeyError:
                    if j >= 0:
                        return f"step {step}: d[k{k}] raised KeyError but key present"
            elif op == "getd":
                got = d.get(key, sentinel)
                if (j < 0 and got is not sentinel) or (j >= 0 and got is not model[j][1]):
                    return f"step {step}: get(k{k}) wrong"
            elif op == "del":
                try:
                    del d[key]
                    if j < 0:
                        return f"step {step}: del of absent key succeeded"
                    del model[j]
                except KeyError:
                    if j >= 0:
                        return f"step {step}: del raised KeyError but key present"
            elif op == "pop":
                try:
                    got = d.pop(key)
                    if j < 0 or got is not model[j][1]:
                        return f"step {step}: pop returned wrong value"
                    del model[j]
                except KeyError as ex:
                    if j >= 0:
                        return f"step {step}: pop raised KeyError but key present"
                    if not (ex.args and ex.args[0] is key):
                        return f"step {step}: pop KeyError does not carry the key"
            elif op == "popnone":
                got = d.pop(key, None)
                if j >= 0:
                    if got is not model[j][1]:
                        return f"step {step}: pop(k{k}, None) returned the wrong value"
                    del model[j]
                elif got is not None:
                    return f"step {step}: pop(k{k}, None) on a missing key returned {got!r}"
            elif op == "popd":
                got = d.pop(key, sentinel)
                if j < 0:
                    if got is not sentinel:
                        return f"step {step}: pop(default) on absent key returned {got!r}"
                else:
                    if got is not model[j][1]:
                        return f"step {step}: pop(default) wrong value"
                    del model[j]
            elif op == "setdefault":
                got = d.setdefault(key, v)
                if j >= 0:
                    if got is not model[j][1]:
                        return f"step {step}: setdefault returned wrong existing value"
                else:
                    if got is not v:
                        return f"step {step}: setdefault did not return the default"
                    model.append([k, v])
            elif op == "setdefault0":
                got = d.setdefault(key)
                if j >= 0:
                    if got is not model[j][1]:
                        return f"step {step}: setdefault(k) returned wrong existing value"
                else:
                    if got is not None:
                        return f"step {step}: setdefault(k) did not return None"
                    model.append([k, None])
            elif op == "contains":
                if (key in d) != (j >= 0):
                    return f"step {step}: k{k} in d is {key in d}"
            elif op == "len":
                if len(d) != len(model):
                    return f"step {step}: len {len(d)} != {len(model)}"
            elif op == "iter":
                got_keys = list(d)
                if len(got_keys) != len(model) or any(a is not keys[b[0]] for a, b in zip(got_keys, model)):
                    return f"step {step}: iteration order/identity wrong"
            elif op == "items":
                its = list(d.items())
                if len(its) != len(model) or any(a[0] is not keys[b[0]] or a[1] is not b[1] for a, b in zip(its, model)):
                    return f"step {step}: items() wrong"
                vals = list(d.values())
                if any(a is not b[1] for a, b in zip(vals, model)):
                    return f"step {step}: values() wrong"
            elif op == "popitem":
                try:
                    pk, pv = d.popitem()
                    if not model:
                        return f"step {step}: popitem on empty succeeded"
                    mk, mv = model.pop()
                    if pk is not keys[mk] or pv is not mv:
                        return f"step {step}: popitem returned wrong pair"
                except KeyError:
                    if model:
                        return f"step {step}: popitem raised on non-empty"
            elif op == "clear":
                d.clear()
                model.clear()
            elif op == "eqcopy":
                c = IdentityDict((keys[kk], vv) for kk, vv in model)
                if not (d == c) or (d != c):
                    return f"step {step}: not equal to an identical IdentityDict"
                c2 = IdentityDict((keys[kk], vv) for kk, vv in model)
                c2[keys[k]] = sentinel
                if d == c2:
                    return f"step {step}: equal to a different IdentityDict"
            elif op == "update":
                d.update([(key, v)])
                if j >= 0:
                    model[j][1] = v
                else:
                    model.append([k, v])
        except Exception as ex:
            return f"step {step}: {op} raised {ex!r}"
        if len(d) != len(model):
            return f"after step {step} ({op}): len {len(d)} != model {len(model)}"
        for kk in range(3):
            jj = find(kk)
            if (keys[kk] in d) != (jj >= 0):
                return f"after step {step} ({op} k{k}): membership of k{kk} wrong"
            if jj >= 0 and d[keys[kk]] is not model[jj][1]:
                return f"after step {step} ({op} k{k}): value of k{kk} wrong"
    r = repr(d)
    if not r.startswith("IdentityDict(["):
        return "repr malformed"
    return None


def _s1(sh: Dict[str, Any]) -> Dict[str, Any]:
    length, first, second = sh["len"], sh["first"], sh.get("second")
    cex: List[Dict[str, Any]] = []
    samples: List[Any] = []

    def harness(e: Engine) -> None:
        ops = []
        for s in range(length):
            op = OPS[first] if s == 0 else OPS[second] if (s == 1 and second is not None) else OPS[e.choice(f"op{s}", len(OPS))]
            k = e.choice(f"key{s}", 3) if op not in ("len", "iter", "popitem", "clear", "items") else 0
            v = e.int(f"val{s}") if op in ("set", "setdefault", "update") else None
            ops.append((op, k, v))
        why = idict_run(ops)
        if len(samples) < 1:
            samples.append({"ops": [(o, k) for o, k, _ in ops]})
        if why and len(cex) < 3:
            cex.append({"ob": 1, "ops": [[o, k, (step if v is not None else None)] for step, (o, k, v) in enumerate(ops)], "why": why})

    eng = Engine(max_seconds=sh.get("budget", 200) * (6 if os.environ.get("VERIF_TIER_EFFECTIVE") == "thorough" else 1))
    eng.explore(harness)
    return par.shard_result(eng, shard=f"idict first={OPS[first]}" + (f" second={OPS[second]}" if second is not None else ""), cex=cex, samples=samples)


# ------------------------------------------------------------------ 2
_SRC = "def twin(probe):\n    return probe()\n"


def _twin_funcs() -> Tuple[Any, Any]:
    ns1: Dict[str, Any] = {}
    ns2: Dict[str, Any] = {}
    exec(compile(_SRC, "<twin>", "exec"), ns1)
    exec(compile(_SRC, "<twin>", "exec"), ns2)
    f1, f2 = ns1["twin"], ns2["twin"]
    assert f1.__code__ == f2.__code__ and f1.__code__ is not f2.__code__
    return f1, f2


def dispatch_case(regs: List[Tuple[int, int]], via_frames: bool) -> Optional[str]:
    try:
        return _dispatch_case(regs, via_frames)
    except Exception as ex:
        return f"the dispatcher API (register / dispatch / registry / call) raised {ex!r}"


def _dispatch_case(regs: List[Tuple[int, int]], via_frames: bool) -> Optional[str]:
    """regs: (which code 0/1/2(other), hook id).  Fresh dispatcher per case."""
    f1, f2 = _twin_funcs()

    def other() -> None:
        pass

    targets = [f1, f2, other]
    hooks = [lambda a, i=i: ("hook", i) for i in range(4)]
    if via_frames:
        @code_dispatch(lambda fr: fr.f_code)
        def disp(fr: Any) -> Any:
            return "default"
    else:
        @code_dispatch(lambda c: c)
        def disp(c: Any) -> Any:
            return "default"
    latest: Dict[int, int] = {}
    for (t, h) in regs:
        if h % 2 == 0:
            disp.register(targets[t], hooks[h])
        else:
            disp.register(targets[t])(hooks[h])
        latest[t] = h
    for t in (0, 1, 2):
        if via_frames:
            if t == 2:
                continue
            arg = targets[t](lambda: sys._getframe(1))
        else:
            arg = targets[t].__code__
        exp = hooks[latest[t]] if t in latest else None
        got = disp.dispatch(arg)
        if exp is None:
            if disp(arg) != "default":
                return f"unregistered code {t} dispatched to a hook"
        else:
            if got is not exp:
                return f"code {t}: dispatch returned {got!r}, expected hook {latest[t]}"
            if disp(arg) != ("hook", latest[t]):
                return f"code {t}: call went to wrong hook"
    if getattr(disp, "__name__", None) != "disp" or getattr(disp, "__wrapped__", None) is None:
        return "the dispatcher does not carry the metadata of the function it wraps"
    if len(disp.registry) != len(latest):
        return f"registry has {len(disp.registry)} entries for {len(latest)} distinct code objects"
    for t in latest:
        if targets[t].__code__ not in disp.registry:
            return f"registry lacks code {t}"
    return None


def _s2(sh: Dict[str, Any]) -> Dict[str, Any]:
    cex: List[Dict[str, Any]] = []
    samples: List[Any] = []

    def harness(e: Engine) -> None:
        n = e.choice("nregs", sh["maxregs"] + 1)
        regs = [(e.choice(f"t{j}", 3), e.choice(f"h{j}", 4)) for j in range(n)]
        via = e.flag("via_frames")
        why = dispatch_case(regs, via)
        if len(samples) < 1:
            samples.append({"registrations": regs, "via_frames": via})
        if why and len(cex) < 3:
            cex.append({"ob": 2, "regs": regs, "via_frames": via, "why": why})

    eng = Engine(max_seconds=200 * (6 if os.environ.get("VERIF_TIER_EFFECTIVE") == "thorough" else 1))
    eng.explore(harness)
    return par.shard_result(eng, shard="dispatch", cex=cex, samples=samples)


# ------------------------------------------------------------------ 3
LAYERS = ["partial", "wraps", "method", "classmethod", "staticmethod", "partial_kw", "wraps2"]


def tower_case(layers: List[int]) -> Optional[str]:
    def base(*a: Any, **k: Any) -> Any:
        return sys._getframe(0).f_code

    class Obj:
        pass

    t: Any = base
    desc = []
    for l in layers:
        name = LAYERS[l]
        if name in ("partial", "partial_kw", "method") and not callable(t):
            return None  # cannot be built: not a valid input
        if name == "partial":
            t = functools.partial(t, 1)
        elif name == "partial_kw":
            t = functools.partial(t, x=2)
        elif name == "wraps":
            inner = t

            @functools.wraps(inner)
            def w(*a: Any, _i: Any = inner, **k: Any) -> Any:
                return _i(*a, **k)

            t = w
        elif name == "wraps2":
            inner = t

            def w2(*a: Any, _i: Any = inner, **k: Any) -> Any:
                return _i(*a, **k)

            try:
                w2.__wrapped__ = inner  # type: ignore[attr-defined]
            except Exception:
                return None
            t = w2
        elif name == "method":
            t = types.MethodType(t, Obj())
        elif name == "classmethod":
            t = classmethod(t)
        elif name == "staticmethod":
            t = staticmethod(t)
        desc.append(name)
    try:
        got = get_code(t)
    except Exception as ex:
        return f"get_code({' o '.join(desc)}) raised {ex!r}"
    if got is not base.__code__:
        return f"get_code({' o '.join(desc)}) returned {got!r}"
    if callable(t):
        try:
            ran = t()
        except TypeError:
            ran = None
        if ran is not None and ran is not got:
            return "code that ran differs from get_code result"
    return None


_NEST_SRC = '''
def outer():
    def f():
        def g():
            def f():
                return "deep f"
            return f
        class K:
            def m(self):
                def g():
                    return "K.m.g"
                return g
            def f(self):
                return "K.f"
        return g, K
    def g():
        return "outer.g"
    class K:
        def m(self):
            return "outer.K.m"
    return f, g, K
'''
_nns: Dict[str, Any] = {}
exec(compile(_NEST_SRC, "<nest>", "exec"), _nns)
# the same source compiled and executed a second time: equal-but-distinct code objects at every level
_nns2: Dict[str, Any] = {}
exec(compile(_NEST_SRC, "<nest>", "exec"), _nns2)
assert _nns["outer"].__code__ == _nns2["outer"].__code__ and _nns["outer"].__code__ is not _nns2["outer"].__code__
NEST_PATHS = [
    (), ("f",), ("g",), ("K",), ("f", "g"), ("f", "K"), ("f", "g", "f"), ("f", "K", "m"), ("f", "K", "m", "g"),
    ("f", "K", "f"), ("K", "m"), ("m",), ("f", "m"), ("K", "f"), ("g", "f"), ("f", "f"), ("x",),
]


def _resolve_by_running(path: Tuple[str, ...], ns: Optional[Dict[str, Any]] = None) -> Any:
    """Independent oracle: obtain the function objects by actually running the code."""
    outer = (ns or _nns)["outer"]
    if not path:
        return outer.__code__
    f, g, K = outer()
    top = {"f": f, "g": g, "K": K}
    cur: Any = top.get(path[0])
    if cur is None:
        return None
    for name in path[1:]:
        if isinstance(cur, type):
            cur = cur.__dict__.get(name)
        elif cur is f:
            g2, K2 = f()
            cur = {"g": g2, "K": K2}.get(name)
        elif getattr(cur, "__name__", "") == "g" and cur.__qualname__ == "outer.<locals>.f.<locals>.g":
            cur = {"f": cur()}.get(name)
        elif getattr(cur, "__qualname__", "").endswith("K.m") and "f.<locals>" in cur.__qualname__:
            cur = {"g": cur(None)}.get(name)
        else:
            cur = None
        if cur is None:
            return None
    if isinstance(cur, type):
        return "class"
    return cur.__code__


def nested_case(pi: int, wrap: int, twin_order: int = 0) -> Optional[str]:
    """twin_order 0: the first copy only; 1: look the path up on copy one, then check copy two;
    2: the other way round (a lookup on a merely-equal code object must not influence this one)."""
    path = NEST_PATHS[pi]
    if twin_order:
        first, second = (_nns, _nns2) if twin_order == 1 else (_nns2, _nns)
        try:
            get_code(first["outer"], *path)
        except Exception:
            pass
        why = _nested_one(path, wrap, second)
        return ("after a lookup on an equal-but-distinct copy: " + why) if why else None
    return _nested_one(path, wrap, _nns)


def _nested_one(path: Tuple[str, ...], wrap: int, ns: Dict[str, Any]) -> Optional[str]:
    target: Any = ns["outer"]
    if wrap == 1:
        target = functools.partial(target)
    elif wrap == 2:
        target = target.__code__
    exp = _resolve_by_running(path, ns)
    try:
        got = get_code(target, *path)
    except ValueError:
        return None if exp is None else f"get_code(outer, {path}) raised ValueError but the path exists"
    except Exception as ex:
        return f"get_code(outer, {path}) raised {ex!r}"
    if exp is None:
        return f"get_code(outer, {path}) returned {got!r} for a path that does not exist"
    if exp == "class":
        return None if (isinstance(got, types.CodeType) and got.co_name == path[-1]) else "class body code not found"
    if got is not exp:
        return f"get_code(outer, {path}) returned {got.co_qualname if hasattr(got,'co_qualname') else got!r}, expected {exp.co_qualname}"
    # the same path through a registration, in both forms: register(target, *names, hook) and register(target, *names)(hook)
    for form in (0, 1):
        @code_dispatch(lambda c: c)
        def disp(c: Any) -> Any:
            return "default"

        def hook(c: Any) -> Any:
            return "hook"

        try:
            if form == 0:
                disp.register(target, *path, hook)
            else:
                disp.register(target, *path)(hook)
            if disp.dispatch(exp) is not hook or disp(exp) != "hook" or len(disp.registry) != 1:
                return f"register(outer, *{path}, hook) [form {form}] did not register on the code object the path names"
        except Exception as ex:
            return f"register(outer, *{path}, hook) [form {form}] raised {ex!r}"
    return None


def _s3(sh: Dict[str, Any]) -> Dict[str, Any]:
    cex: List[Dict[str, Any]] = []
    samples: List[Any] = []
    reached = [0]

    def harness(e: Engine) -> None:
        if e.flag("nested_names"):
            pi = e.choice("path", len(NEST_PATHS))
            wrap = e.choice("wrap", 3)
            tw = e.choice("twin_order", 3)
            why = nested_case(pi, wrap, tw)
            reached[0] += 1
            if why and len(cex) < 3:
                cex.append({"ob": 3, "path": pi, "wrap": wrap, "twin": tw, "why": why})
            return
        depth = e.choice("depth", sh["maxdepth"] + 1)
        layers = [e.choice(f"layer{j}", len(LAYERS)) for j in range(depth)]
        why = tower_case(layers)
        reached[0] += 1
        if len(samples) < 1 and depth:
            samples.append({"tower": [LAYERS[l] for l in layers]})
        if why and len(cex) < 3:
            cex.append({"ob": 3, "layers": layers, "why": why})

    eng = Engine(max_seconds=200 * (6 if os.environ.get("VERIF_TIER_EFFECTIVE") == "thorough" else 1))
    eng.explore(harness)
    return par.shard_result(eng, shard="get_code", cex=cex, samples=samples, reached=reached[0])


# ------------------------------------------------------------------ 4
_CUST_SRC = '''
import sys
def target(probe):
    return callee(probe)
def callee(probe):
    return probe(sys._getframe(1))
def sibling(probe):
    return callee(probe)
'''


def customize_case(hide: bool, hide_line: bool, prune: bool, elab: int, form: int) -> Optional[str]:
    """elab: 0 absent, 1 returns None, 2 returns a replacement (a pool-free fresh generator),
    3 returns PRUNE, 4 returns [] (an empty sequence: remove the callees).
    form: 0 direct customize(target, ...), 1 decorator @customize(...)."""
    ns: Dict[str, Any] = {"__name__": "verif_cust"}
    exec(compile(_CUST_SRC, "<cust>", "exec"), ns)
    target, callee, sibling = ns["target"], ns["callee"], ns["sibling"]

    def repl_gen() -> Any:
        yield 1

    rg = repl_gen()
    next(rg)
    calls: List[Any] = []

    def elab_fn(frame: Any, next_inner: Any) -> Any:
        calls.append(frame)
        if elab == 3:
            return stackscope.PRUNE
        if elab == 4:
            return []
        return rg if elab == 2 else None

    kw: Dict[str, Any] = {}
    if hide:
        kw["hide"] = True
    if hide_line:
        kw["hide_line"] = True
    if prune:
        kw["prune"] = True
    if elab:
        kw["elaborate"] = elab_fn
    if form == 0:
        ret = customize(target, **kw)
    else:
        ret = customize(**kw)(target)
    if ret is not target:
        return "customize did not return the target unchanged"

    def probe(outer_frame: Any) -> Any:
        return stackscope.extract(StackSlice(outer=outer_frame), with_contexts=False)

    st = target(probe)
    names = [f.funcname for f in st.frames]
    if not names or names[0] != "target":
        return f"unexpected frames {names}"
    fr = st.frames[0]
    if fr.hide != hide:
        return f"Frame.hide is {fr.hide}, customize(hide={hide})"
    if fr.hide_line != hide_line:
        return f"Frame.hide_line is {fr.hide_line}, customize(hide_line={hide_line})"
    if elab and len(calls) != 1:
        return f"elaborate called {len(calls)} times"
    if elab == 2:
        if names != ["target", "repl_gen"]:
            return f"elaborate replacement not honoured: {names}"
    elif elab in (3, 4):
        if names != ["target"]:
            return f"elaborate returned PRUNE / an empty sequence but callees are present: {names}"
    elif prune:
        if names != ["target"]:
            return f"prune=True but callees present: {names}"
    else:
        if names[:3] != ["target", "callee", "probe"]:
            return f"callees missing without prune: {names}"
    # frames of other code objects are unaffected
    st2 = sibling(probe)
    n2 = [f.funcname for f in st2.frames]
    if n2[:3] != ["sibling", "callee", "probe"] or st2.frames[0].hide or st2.frames[0].hide_line:
        return f"customization leaked to another function: {n2}"
    return None


def _s4(sh: Dict[str, Any]) -> Dict[str, Any]:
    cex: List[Dict[str, Any]] = []
    samples: List[Any] = []

    def harness(e: Engine) -> None:
        hide, hl, pr = e.flag("hide"), e.flag("hide_line"), e.flag("prune")
        elab = e.choice("elaborate", 5)
        form = e.choice("form", 2)
        why = customize_case(hide, hl, pr, elab, form)
        if len(samples) < 1:
            samples.append({"hide": hide, "hide_line": hl, "prune": pr, "elaborate": elab, "form": form})
        if why and len(cex) < 4:
            cex.append({"ob": 4, "hide": hide, "hide_line": hl, "prune": pr, "elaborate": elab, "form": form, "why": why})

    eng = Engine(max_seconds=200 * (6 if os.environ.get("VERIF_TIER_EFFECTIVE") == "thorough" else 1))
    eng.explore(harness)
    return par.shard_result(eng, shard="customize", cex=cex, samples=samples)


# ------------------------------------------------------------- interface
def run(rep: Any, tier: str, seed: int) -> None:
    import z3

    rep.engine_name = f"symx (z3 {z3.get_version_string()})"
    rep.functions = FUNCTIONS
    L1 = 3 if tier == "quick" else 4
    rep.bounds = {"IdentityDict.ops": f"sequences of {L1} over {len(OPS)} operations x 3 keys (two equal-but-distinct unhashable), values unconstrained z3 Ints",
                  "dispatch.registrations": "0..3 (4 thorough) over 3 code objects x 4 hooks, direct and decorator register forms, via code and via real frames",
                  "towers": f"depth 0..{3 if tier == 'quick' else 4} over {LAYERS}", "nested paths": len(NEST_PATHS),
                  "customize": "2^3 flags x 5 elaborate kinds (absent, None, replacement, PRUNE, []) x 2 forms"}
    rep.outside = ["towers deeper than the bound", "callables implemented in C", "PyPy"]
    res = par.run_shards("harness.c12", "_s1", [{"len": L1, "first": f} for f in range(len(OPS))] if tier == "quick" else
                         [{"len": L1, "first": f, "second": g} for f in range(len(OPS)) for g in range(len(OPS))])
    for c in par.fold(rep, OB1, res):
        rep.counterexample(OB1, c, c["why"])
    res = par.run_shards("harness.c12", "_s2", [{"maxregs": 3 if tier == "quick" else 4}])
    for c in par.fold(rep, OB2, res):
        rep.counterexample(OB2, c, c["why"])
    res = par.run_shards("harness.c12", "_s3", [{"maxdepth": 3 if tier == "quick" else 4}])
    for c in par.fold(rep, OB3, res):
        rep.counterexample(OB3, c, c["why"])
    res = par.run_shards("harness.c12", "_s4", [{}])
    for c in par.fold(rep, OB4, res):
        rep.counterexample(OB4, c, c["why"])


def replay(case: Dict[str, Any]) -> Dict[str, Any]:
    ob = case["ob"]
    if ob == 1:
        why = idict_run([(o, k, (("v", v) if v is not None else None)) for o, k, v in case["ops"]])
    elif ob == 2:
        why = dispatch_case([tuple(r) for r in case["regs"]], case["via_frames"])
    elif ob == 3:
        why = nested_case(case["path"], case["wrap"], case.get("twin", 0)) if "path" in case else tower_case(case["layers"])
    else:
        why = customize_case(case["hide"], case["hide_line"], case["prune"], case["elaborate"], case["form"])
    return {"status": "reproduces" if why else "not-reproduced", "detail": why}


def classify(case: Dict[str, Any], out: Dict[str, Any]) -> Optional[str]:
    if case.get("ob") == 4 and case.get("hide_line") and "hide_line" in str(out.get("detail")):
        return "F3"
    return None
