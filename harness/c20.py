"""C20 -- fallback analysis is a sound ordered over-approximation; failures only warn.

 1 referents mode on the model: C01 corpus + abstract interpreter; _lowlevel.gc rebound to a
   collector model (a frame's referents = its locals, then its value stack bottom-up); real
   _contexts_active_by_referents + currently_exiting_context; f_lasti symbolic over every
   reachable suspension offset.
 2 failure only warns: symbolic index k (unbounded z3 Int) of the faulted step inside the
   trickery analysis of REAL suspended frames; the result must be the referents answer, with
   exactly one InspectionWarning and no exception.
 3 global switch: symbolic sequences over {True, False, None}.
"""
from __future__ import annotations

import contextlib
import io
import threading
import types
import warnings
from typing import Any, Dict, List, Optional, Tuple

from vlib import par
from vlib.symx import Engine

OB1 = "C20.referents-mode sound ordered over-approximation (symbolic f_lasti, collector model)"
OB1B = "C20.referents mode on REAL suspended frames with their real origin (symbolic suspension index)"
OB2 = "C20.trickery failure only warns (symbolic fault index, real frames)"
OB3 = "C20.set_trickery_enabled sequences"
OB4 = "C20.one manager object entered more than once (one entry per active with block, both modes)"
FUNCTIONS = ["stackscope._lowlevel._contexts_active_by_referents", "stackscope._lowlevel.contexts_active_in_frame",
             "stackscope._lowlevel.currently_exiting_context", "stackscope._lowlevel.set_trickery_enabled",
             "stackscope._lowlevel._check_trickery_available"]


class _GcModel:
    """gc.get_referents for the fake frame: locals first, then the value stack bottom-up
    (CPython's frame traversal order); validated against the real collector in every run."""

    def __init__(self) -> None:
        self.stacks: Dict[int, List[Any]] = {}

    def get_referents(self, root: Any) -> List[Any]:
        if id(root) in self.stacks:
            return list(root.f_locals.values()) + list(self.stacks[id(root)])
        import gc

        return gc.get_referents(root)


def judge_referents(got: List[Tuple[Any, bool, bool]], entered: List[Tuple[Any, bool]], exiting: Optional[Tuple[Any, bool]],
                    in_transition: List[Any]) -> Optional[str]:
    """The property for one observation.  got: (obj, is_async, is_exiting)."""
    plain = [g for g in got if not g[2]]
    ex = [g for g in got if g[2]]
    # every truly active manager present, in order, with right obj/is_async
    j = 0
    extras = []
    for g in plain:
        if j < len(entered) and g[0] is entered[j][0]:
            if g[1] != entered[j][1]:
                return f"is_async wrong for {g[0]!r}"
            j += 1
        else:
            extras.append(g)
    if j != len(entered):
        return f"active manager {entered[j][0]!r} missing or out of order in {got}"
    for g in extras:
        if not any(g[0] is t for t in in_transition):
            return f"additional entry {g[0]!r} is not the manager being entered or exited"
    if exiting is None:
        if ex:
            return f"is_exiting entry {ex} although no exit call is in progress"
    else:
        if len(ex) != 1 or got[-1] is not ex[0]:
            return f"expected exactly one is_exiting entry, last; got {got}"
        if ex[0][0] is not exiting[0]:
            return f"is_exiting entry's obj is {ex[0][0]!r}, expected {exiting[0]!r}"
        if ex[0][1] != exiting[1]:
            return "is_exiting entry has wrong is_async"
    return None


def symbolic_leg(e: Engine, P: Dict[str, Any], gcm: _GcModel) -> Optional[Dict[str, Any]]:
    from stackscope import _lowlevel
    from vlib.bc import stubs

    an, wmap, code = P["an"], P["wmap"], P["code"]
    yoffs = an.yield_offsets()
    if not yoffs:
        return None
    lasti = e.int("f_lasti", min(yoffs), max(yoffs))
    cond = None
    for o in yoffs:
        c = (lasti == o)
        cond = c if cond is None else (cond | c)
    e.assume(cond)
    o = int(lasti)
    views = sorted(an.suspended_views(o), key=repr)
    vi = e.choice("view", len(views))
    stack_tags, entered, exiting = views[vi]
    dummies = {mid: stubs.Dummy(mid) for (mid, _, _, _) in wmap.values()}
    frame = stubs.FakeFrame(code, lasti, {"E": object()})
    gcm.stacks = {id(frame): stubs.model_stack(stack_tags, dummies, wmap, an.with_offsets)}
    next_inner = None
    if exiting is not None:
        d = dummies[wmap[exiting][0]]
        next_inner = stubs.exit_frame_for(d, an.with_offsets[exiting])
    with warnings.catch_warnings(record=True) as w:
        warnings.simplefilter("always")
        with contextlib.redirect_stderr(io.StringIO()):
            try:
                ctxs = _lowlevel.contexts_active_in_frame(frame, None, next_inner)
            except Exception as ex:
                return {"ok": False, "lasti": o, "why": f"raised {ex!r}", "f2": False}
    warn = [str(x.message) for x in w if issubclass(x.category, _lowlevel.InspectionWarning)]
    got = [(c.obj, c.is_async, c.is_exiting) for c in ctxs]
    ent = [(dummies[wmap[wo][0]], an.with_offsets[wo]) for wo in entered]
    exi = (dummies[wmap[exiting][0]], an.with_offsets[exiting]) if exiting is not None else None
    pending = {t[1] for t in stack_tags if isinstance(t, tuple) and t[0] in ("enterres", "exitres")}
    trans = [dummies[wmap[wo][0]] for wo in pending]
    why = judge_referents(got, ent, exi, trans)
    if why is None and warn:
        why = "InspectionWarning in referents mode: " + warn[0][:100]
    if why is None:
        return {"ok": True, "lasti": o}
    f2 = False
    if exiting is not None:
        origin = an.exit_call_origin(stack_tags)
        f2 = origin is not None and an.is_unanchored_exit_site(exiting, origin)
    return {"ok": False, "lasti": o, "why": why, "f2": f2}


def real_referents_deviation(ob: Dict[str, Any], async_of: Dict[int, bool]) -> Optional[str]:
    if "real_exc" in ob:
        return f"raised {ob['real_exc']}"
    got = [(r[0], r[1], r[2]) for r in ob.get("real", [])]
    ent = [(m, async_of[m.i]) for m in ob["active"] if m is not ob["exiting"]]
    exi = (ob["exiting"], async_of[ob["exiting"].i]) if ob["exiting"] else None
    # managers in transition: whatever is referenced by the stack but not (yet / any more) plainly active
    trans = [r.__self__ for r in ob.get("referent_exits", []) if not any(r.__self__ is m for m, _ in ent)]
    why = judge_referents(got, ent, exi, trans)
    if why is None and ob.get("warnings"):
        why = "InspectionWarning in referents mode: " + ob["warnings"][0][:100]
    return why


def _shard1(sh: Dict[str, Any]) -> Dict[str, Any]:
    from stackscope import _lowlevel
    from vlib.bc import dyn, ai312
    from harness.c01 import analyse_program

    from vlib.bc import stubs as _stubs

    _stubs.install_guard()
    gcm = _GcModel()
    saved_gc = _lowlevel.gc
    cex: List[Dict[str, Any]] = []
    samples: List[Any] = []
    tot = {"paths": 0, "queries": 0, "solver_time": 0.0}
    exhausted = True
    extra = {"code_objects": 0, "observation_points": 0, "collector_order_validated_on_real_suspensions": 0, "f2_counterexamples": 0}
    crash = None
    _lowlevel.set_trickery_enabled(False)
    try:
        for desc, src in sh["programs"]:
            try:
                P = analyse_program(desc, src)
            except ai312.Unsupported:
                continue
            # validate the collector model: the real collector reports a suspended generator's exit
            # methods in value-stack order (checked on every 4th program to bound the cost)
            if sh.get("validate", True) and (extra["code_objects"] % 4 == 0):
                for ob in dyn.observe_all(src, desc["kind"], trickery=False):
                    if "driver_error" in ob or "stack" not in ob:
                        continue
                    smeth = [r for r in ob["stack"] if dyn.is_exit_method(r)]
                    if [id(x.__self__) for x in smeth] != [id(x.__self__) for x in ob.get("referent_exits", [])]:
                        crash = f"collector model wrong at lasti={ob['lasti']} of\n{src}"
                        break
                    extra["collector_order_validated_on_real_suspensions"] += 1
                if crash:
                    break
            extra["code_objects"] += 1
            _lowlevel.set_trickery_enabled(False)  # (observe_all restores the default when it returns)
            _lowlevel.gc = gcm  # type: ignore[assignment]
            results: List[Dict[str, Any]] = []

            def harness(e: Engine) -> None:
                r = symbolic_leg(e, P, gcm)
                if r is not None:
                    results.append(r)

            eng = Engine(max_seconds=120)
            try:
                eng.explore(harness)
            finally:
                _lowlevel.gc = saved_gc
            tot["paths"] += eng.paths
            tot["queries"] += eng.queries
            tot["solver_time"] += eng.solver_time
            tot["path_exceptions"] = tot.get("path_exceptions", 0) + eng.n_exceptions
            tot.setdefault("path_exception_samples", []).extend(eng.exceptions[:2])
            exhausted = exhausted and eng.exhausted
            extra["observation_points"] += len(results)
            if len(samples) < 1 and results:
                samples.append({"program": desc, "offsets": sorted({r["lasti"] for r in results})})
            for r in results:
                if not r["ok"]:
                    if r["f2"]:
                        extra["f2_counterexamples"] += 1
                    if sum(1 for c in cex if c["f2"] == r["f2"]) < 2:
                        cex.append({"desc": desc, "src": src, "lasti": r["lasti"], "why": r["why"], "f2": r["f2"]})
    finally:
        _lowlevel.gc = saved_gc
        _lowlevel.set_trickery_enabled(None)
    if crash:
        return {"shard": sh["name"], "crash": crash}
    return {"paths": tot["paths"], "queries": tot["queries"], "solver_time": tot["solver_time"], "exhausted": exhausted,
            "path_exceptions": tot.get("path_exceptions", 0), "path_exception_samples": tot.get("path_exception_samples", [])[:3],
            "inconclusive": [], "shard": sh["name"], "cex": cex, "samples": samples, "extra": extra, "reached": extra["observation_points"]}


# ------------------------------------------------------------------- 2
FAULT_PROGS = [("coro", "in_async_with", True, 2, "nested_with", "stmt"), ("gen", "tryfinally_body", False, 2, "try_finally_last", "second_with"),
               ("agen", "for", True, 1, "plain", "stmt"), ("coro", "none", True, 1, "raise", "nothing")]


class Injected(Exception):
    pass


def fault_case(pi: int, k: Any) -> Dict[str, Any]:
    """Drive program pi; at every suspension run the real contexts_active_in_frame with a fault
    injected at the k-th wrapped step of the trickery analysis (counted over the whole run)."""
    from stackscope import _lowlevel
    from vlib.bc import dyn, progs

    kind = FAULT_PROGS[pi][0]
    src = progs.build(*FAULT_PROGS[pi])
    assert src
    prog = dyn.compile_prog(src)
    async_of = {mid: a for (mid, _, _, a) in dyn.with_item_map(src, prog.__code__).values()}
    state = {"n": 0, "in": False, "fired": 0}
    names = ["analyze_with_blocks", "inspect_frame", "currently_exiting_context", "replace"]
    saved = {n: getattr(_lowlevel, n) for n in names}
    saved_trick = _lowlevel._contexts_active_by_trickery
    problems: List[str] = []
    sites: List[str] = []

    def mk(name: str) -> Any:
        orig = saved[name]

        def w(*a: Any, **kw: Any) -> Any:
            if state["in"]:
                state["n"] += 1
                if state["n"] == k:  # symbolic
                    state["fired"] += 1
                    sites.append(name)
                    raise Injected(f"fault in {name} (step {state['n']})")
            return orig(*a, **kw)

        return w

    def trick(frame: Any) -> Any:
        state["in"] = True
        try:
            return saved_trick(frame)
        finally:
            state["in"] = False

    def on_suspend(ob: Any) -> None:
        for n in names:
            setattr(_lowlevel, n, saved[n])
        _lowlevel._contexts_active_by_trickery = saved_trick
        _lowlevel.set_trickery_enabled(False)
        try:
            with warnings.catch_warnings():
                warnings.simplefilter("ignore")
                ref = [(c.obj, c.is_async, c.is_exiting) for c in _lowlevel.contexts_active_in_frame(ob.frame, ob.gen, ob.next_inner)]
        finally:
            _lowlevel.set_trickery_enabled(True)
        for n in names:
            setattr(_lowlevel, n, mk(n))
        _lowlevel._contexts_active_by_trickery = trick
        fired_before = state["fired"]
        try:
            with warnings.catch_warnings(record=True) as w, contextlib.redirect_stderr(io.StringIO()):
                warnings.simplefilter("always")
                try:
                    got = [(c.obj, c.is_async, c.is_exiting) for c in _lowlevel.contexts_active_in_frame(ob.frame, ob.gen, ob.next_inner)]
                except Exception as ex:
                    problems.append(f"contexts_active_in_frame raised {ex!r} at step {ob.step}")
                    return
            nw = len([x for x in w if issubclass(x.category, _lowlevel.InspectionWarning)])
            if state["fired"] > fired_before:
                if nw != 1:
                    problems.append(f"{nw} InspectionWarnings for one failure (fault in {sites[-1]})")
                if [(id(a), b, c) for a, b, c in got] != [(id(a), b, c) for a, b, c in ref]:
                    problems.append(f"after a fault in {sites[-1]} the result {got} is not the referents answer {ref}")
                why = truth_judgement(ob, got, async_of)
                if why:
                    problems.append(f"after a fault in {sites[-1]} (step {ob.step}): {why}")
        finally:
            for n in names:
                setattr(_lowlevel, n, saved[n])
            _lowlevel._contexts_active_by_trickery = saved_trick

    try:
        dyn.drive(prog, kind, (False,) * dyn.n_decisions(src), None, on_suspend)
    finally:
        for n in names:
            setattr(_lowlevel, n, saved[n])
        _lowlevel._contexts_active_by_trickery = saved_trick
        _lowlevel.set_trickery_enabled(None)
    return {"ok": not problems, "why": problems[0] if problems else None, "steps": state["n"], "sites": sites}


def truth_judgement(ob: Any, got: List[Tuple[Any, bool, bool]], async_of: Dict[int, bool]) -> Optional[str]:
    """The C20 property for one REAL suspension: result vs the managers' event log."""
    import gc
    from vlib.bc import dyn

    ent = [(m, async_of[m.i]) for m in ob.active if m is not ob.exiting]
    exi = (ob.exiting, async_of[ob.exiting.i]) if ob.exiting else None
    refs = [r for r in gc.get_referents(ob.gen) if dyn.is_exit_method(r)]
    trans = [r.__self__ for r in refs if not any(r.__self__ is m for m, _ in ent)]
    return judge_referents(got, ent, exi, trans)


# ------------------------------------------------------------------- 1b
def step_programs() -> List[Tuple[Dict[str, Any], str]]:
    from vlib.bc import progs

    allp = list(progs.corpus("quick", 0))
    # F2 shapes are excluded here (they are obligation 1's known finding); every kind is represented
    keep = [p for p in allp if p[0]["tail"] in ("plain", "nested_with", "nested_async_with", "try_finally_last", "raise", "swallow", "empty")]
    import os

    stride = int(os.environ.get("VERIF_CORPUS_STRIDE", "1") or 1)
    return keep[::5 * stride]


def real_step_case(pi: int, ri: int, s: Any) -> Dict[str, Any]:
    """Program pi, run ri (decision script / throw point); at the suspension whose index equals the
    symbolic s, the REAL referents implementation on the REAL frame (with its real origin) is judged."""
    from stackscope import _lowlevel
    from vlib.bc import dyn

    desc, src = step_programs()[pi]
    prog = dyn.compile_prog(src)
    async_of = {mid: a for (mid, _, _, a) in dyn.with_item_map(src, prog.__code__).values()}
    runs = dyn.all_runs(src)
    script, throw_at = runs[ri % len(runs)]
    out: Dict[str, Any] = {"ok": True, "nsusp": 0, "hit": False}

    def on_suspend(ob: Any) -> None:
        out["nsusp"] += 1
        if ob.step == s:  # symbolic
            out["hit"] = True
            with warnings.catch_warnings(record=True) as w, contextlib.redirect_stderr(io.StringIO()):
                warnings.simplefilter("always")
                try:
                    got = [(c.obj, c.is_async, c.is_exiting) for c in _lowlevel.contexts_active_in_frame(ob.frame, ob.gen, ob.next_inner)]
                except Exception as ex:
                    out.update(ok=False, why=f"raised {ex!r}")
                    return
            why = truth_judgement(ob, got, async_of)
            if why is None and any(issubclass(x.category, _lowlevel.InspectionWarning) for x in w):
                why = "InspectionWarning in referents mode"
            if why:
                out.update(ok=False, why=f"{desc['kind']} at suspension {ob.step} (lasti {ob.lasti}): {why}")

    _lowlevel.set_trickery_enabled(False)
    try:
        dyn.drive(prog, desc["kind"], script, throw_at, on_suspend)
    finally:
        _lowlevel.set_trickery_enabled(None)
    return out


def _shard1b(sh: Dict[str, Any]) -> Dict[str, Any]:
    from vlib.bc import dyn

    cex: List[Dict[str, Any]] = []
    samples: List[Any] = []
    pi = sh["prog"]
    desc, src = step_programs()[pi]
    nruns = len(dyn.all_runs(src))
    reached = [0]

    def harness(e: Engine) -> None:
        ri = e.choice("run", nruns)
        s = e.int("suspension_index", 1, None)
        r = real_step_case(pi, ri, s)
        if r["hit"]:
            reached[0] += 1
        if len(samples) < 1 and r["hit"]:
            samples.append({"program": desc, "run": ri, "suspension(one model value)": e.model().get("suspension_index")})
        if not r["ok"] and len(cex) < 2:
            cex.append({"step_real": True, "prog": pi, "run": ri, "s": e.model().get("suspension_index"), "why": r["why"]})

    eng = Engine(max_seconds=300)
    eng.explore(harness)
    return par.shard_result(eng, shard=f"real-step-prog{pi}", cex=cex, samples=samples, reached=reached[0])


def _shard2(sh: Dict[str, Any]) -> Dict[str, Any]:
    cex: List[Dict[str, Any]] = []
    samples: List[Any] = []
    pi = sh["prog"]

    def harness(e: Engine) -> None:
        k = e.int("k", 1, None)
        r = fault_case(pi, k)
        if len(samples) < 1 and r["sites"]:
            samples.append({"program": FAULT_PROGS[pi], "fault_site": r["sites"], "k(one model value)": e.model().get("k")})
        if not r["ok"] and len(cex) < 3:
            cex.append({"fault": True, "prog": pi, "k": e.model().get("k"), "why": r["why"]})

    eng = Engine(max_seconds=300)
    eng.explore(harness)
    return par.shard_result(eng, shard=f"fault-prog{pi}", cex=cex, samples=samples)


# ------------------------------------------------------------------- 3
def _probe_mode() -> str:
    """Which implementation is in use, observed through behaviour on a real frame."""
    from stackscope import _lowlevel

    class M:
        def __enter__(self) -> "M":
            return self

        def __exit__(self, *a: Any) -> None:
            return None

    def g() -> Any:
        with M() as xyz:  # noqa: F841
            yield

    gi = g()
    next(gi)
    with warnings.catch_warnings():
        warnings.simplefilter("ignore")
        c = _lowlevel.contexts_active_in_frame(gi.gi_frame, gi, None)
    gi.close()
    if len(c) != 1:
        return f"broken:{c}"
    return "trickery" if (c[0].varname == "xyz" and c[0].start_line is not None) else "referents"


def switch_case(seq: List[Optional[bool]], from_thread: bool) -> Optional[str]:
    from stackscope import _lowlevel

    try:
        for v in seq:
            _lowlevel.set_trickery_enabled(v)
        last = seq[-1] if seq else None
        exp = "trickery" if (last is None or last is True) else "referents"
        if from_thread:
            out: List[str] = []
            t = threading.Thread(target=lambda: out.append(_probe_mode()))
            t.start()
            t.join(10)
            got = out[0] if out else "no answer"
        else:
            got = _probe_mode()
        if got != exp:
            return f"after {seq} the mode in use is {got}, expected {exp}"
        return None
    finally:
        _lowlevel.set_trickery_enabled(None)


def _shard3(sh: Dict[str, Any]) -> Dict[str, Any]:
    cex: List[Dict[str, Any]] = []
    samples: List[Any] = []
    vals = [True, False, None]

    def harness(e: Engine) -> None:
        n = e.choice("len", sh["maxlen"] + 1)
        seq = [vals[e.choice(f"v{j}", 3)] for j in range(n)]
        ft = e.flag("observe_from_other_thread")
        why = switch_case(seq, ft)
        if len(samples) < 1 and n:
            samples.append({"sequence": seq, "other_thread": ft})
        if why and len(cex) < 3:
            cex.append({"switch": True, "seq": seq, "thread": ft, "why": why})

    eng = Engine(max_seconds=300)
    eng.explore(harness)
    return par.shard_result(eng, shard="switch", cex=cex, samples=samples)


# ------------------------------------------------------------------- 4: one manager object entered more than once
class _Reentrant:
    """A reentrant manager supporting both protocols; `with m: with m:` pushes one bound exit method per block."""

    def __init__(self, name: str) -> None:
        self.name = name

    def __repr__(self) -> str:
        return f"<R {self.name}>"

    def __enter__(self) -> Any:
        return self

    def __exit__(self, *a: Any) -> None:
        return None

    async def __aenter__(self) -> Any:
        return self

    async def __aexit__(self, *a: Any) -> None:
        return None


def reentrant_case(picks: List[int], asyncs: List[bool], mode: Optional[bool]) -> Optional[str]:
    """with M[picks[0]]: (async) with M[picks[1]]: ... suspended in the innermost body; the same object may recur."""
    import types as _types

    from stackscope import _lowlevel

    M = [_Reentrant("a"), _Reentrant("b")]
    is_coro = any(asyncs)
    lines = ["async def prog(M, T):" if is_coro else "def prog(M, T):"]
    for j, (pk, a) in enumerate(zip(picks, asyncs)):
        lines.append("    " * (j + 1) + ("async with " if a else "with ") + f"M[{pk}]:")
    lines.append("    " * (len(picks) + 1) + ("await T()" if is_coro else "yield 1"))
    ns: Dict[str, Any] = {}
    exec(compile("\n".join(lines) + "\n", "<reentrant>", "exec"), ns)

    @_types.coroutine
    def trap() -> Any:
        yield "trap"

    obj = ns["prog"](M, trap)
    obj.send(None)
    frame = obj.cr_frame if is_coro else obj.gi_frame
    _lowlevel.set_trickery_enabled(mode)
    try:
        with warnings.catch_warnings(record=True) as w:
            warnings.simplefilter("always")
            got = [(c.obj, c.is_async, c.is_exiting) for c in _lowlevel.contexts_active_in_frame(frame, obj, None)]
        nw = [str(x.message)[:160] for x in w if issubclass(x.category, _lowlevel.InspectionWarning)]
    finally:
        _lowlevel.set_trickery_enabled(None)
        obj.close()
    entered = [(M[pk], a) for pk, a in zip(picks, asyncs)]
    if nw:
        return f"InspectionWarning: {nw[0]}"
    if mode is False:
        return judge_referents(got, entered, None, [])
    if [(id(a), b, c) for a, b, c in got] != [(id(m), a, False) for m, a in entered]:
        return f"trickery mode: {got} != {entered}"
    return None


def _shard4(sh: Dict[str, Any]) -> Dict[str, Any]:
    cex: List[Dict[str, Any]] = []
    samples: List[Any] = []

    def harness(e: Engine) -> None:
        n = 1 + e.choice("nesting", sh["maxdepth"])
        picks = [e.choice(f"manager{j}", 2) for j in range(n)]
        asyncs = [bool(e.flag(f"async{j}")) for j in range(n)]
        mode = [False, None][e.choice("trickery", 2)]
        why = reentrant_case(picks, asyncs, mode)
        if len(samples) < 1 and n > 1:
            samples.append({"managers": picks, "async": asyncs, "trickery": mode})
        if why and len(cex) < 3:
            cex.append({"reentrant": True, "picks": picks, "asyncs": asyncs, "mode": mode, "why": why})

    eng = Engine(max_seconds=300)
    eng.explore(harness)
    return par.shard_result(eng, shard="reentrant", cex=cex, samples=samples)


def run(rep: Any, tier: str, seed: int) -> None:
    import z3
    from harness.c01 import chunks
    from vlib.bc import canary

    rep.engine_name = f"symx (z3 {z3.get_version_string()})"
    rep.functions = FUNCTIONS
    rep.bounds = {"corpus": f"C01 corpus ({tier})", "f_lasti": "every reachable suspension offset",
                  "fault index": "every integer >= 1 (one path per wrapped step inside the trickery analysis + beyond-the-end)",
                  "fault programs": [list(p) for p in FAULT_PROGS], "switch sequences": f"length 0..{3 if tier == 'quick' else 4} over True/False/None, observed on the calling and on another thread"}
    rep.outside = ["the order in which the real collector reports referents is an assumption of obligation 1 (validated against the real collector on really suspended frames in the run, reached otherwise only by replay)",
                   "which references the interpreter keeps alive during enter/exit on other versions", "CPython 3.9-3.11"]
    rep.stubs = ["_lowlevel.gc rebound to a collector model for fake frames (locals, then value stack bottom-up)", "FakeFrame + abstract-interpreter stack as in C01"]
    st = canary.run()
    if st != "ok":
        rep.add_counts(OB1, 1, 1, status="failed")
        rep.counterexample(OB1, {"canary": True, "why": st}, "real analysis on a trivial suspended generator: " + st)
        return
    jobs: List[Tuple[str, Any]] = [("_shard1", c) for c in chunks(tier, seed, 24 if tier == "quick" else 48)]
    jobs += [("_shard1b", {"prog": i}) for i in range(len(step_programs()))]
    jobs += [("_shard2", {"prog": i}) for i in range(len(FAULT_PROGS))]
    jobs += [("_shard3", {"maxlen": 3 if tier == "quick" else 4})]
    jobs += [("_shard4", {"maxdepth": 3 if tier == "quick" else 4})]
    rep.bounds["reentrant managers"] = f"1..{3 if tier == 'quick' else 4} nested with / async with blocks over two manager objects (any repetition), referents mode and default mode"
    res = par.run_mixed("harness.c20", jobs)
    for fn, ob in (("_shard1", OB1), ("_shard1b", OB1B), ("_shard2", OB2), ("_shard3", OB3), ("_shard4", OB4)):
        for c in par.fold(rep, ob, [r for f, r in res if f == fn]):
            rep.counterexample(ob, c, c["why"])


def replay(case: Dict[str, Any]) -> Dict[str, Any]:
    if case.get("canary"):
        from vlib.bc import canary

        st = canary.run()
        return {"status": "reproduces" if st != "ok" else "not-reproduced", "detail": st}
    if case.get("step_real"):
        r = real_step_case(case["prog"], case["run"], case["s"])
        return {"status": "reproduces" if not r["ok"] else "not-reproduced", "detail": r}
    if case.get("fault"):
        r = fault_case(case["prog"], case["k"])
        return {"status": "reproduces" if not r["ok"] else "not-reproduced", "detail": r}
    if case.get("switch"):
        why = switch_case(case["seq"], case["thread"])
        return {"status": "reproduces" if why else "not-reproduced", "detail": why}
    if case.get("reentrant"):
        why = reentrant_case(case["picks"], case["asyncs"], case["mode"])
        return {"status": "reproduces" if why else "not-reproduced", "detail": why}
    from harness.c01 import analyse_program
    from vlib.bc import dyn

    desc, src, lasti = case["desc"], case["src"], case["lasti"]
    P = analyse_program(desc, src)
    async_of = {mid: a for (mid, _, _, a) in P["wmap"].values()}
    obs = [ob for ob in dyn.observe_all(src, desc["kind"], trickery=False) if ob.get("lasti") == lasti]
    if not obs:
        return {"status": "unreachable", "detail": "no real run suspends at this offset"}
    for ob in obs:
        why = real_referents_deviation(ob, async_of)
        if why:
            return {"status": "reproduces", "detail": {"script": ob["script"], "throw_at": ob["throw_at"], "step": ob["step"], "why": why}}
    return {"status": "not-reproduced", "detail": f"{len(obs)} real suspensions agree"}


def classify(case: Dict[str, Any], out: Dict[str, Any]) -> Optional[str]:
    if case.get("f2"):
        return "F2"
    return None


def confirm_finding(fid: str) -> bool:
    return False
