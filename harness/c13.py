"""C13 -- extraction options are scoped to their call tree and thread; stubs honoured.

Engine: symx.  Real code: ExtractOptions.push, extract, extract_child,
fill_context, extract_iter (the `if current_options.with_contexts` test).
Symbolic: per nesting level the two option booleans (z3 Bools that flow through
push() into the real `if current_options...` tests), the entry point used to
nest, whether the level aborts with a BaseException through the `with`, and
for the two-thread leg the options of both threads.
Observation is through behaviour only (never by reading current_options).
"""
from __future__ import annotations

import os

import threading
from typing import Any, Dict, List, Optional, Tuple

import stackscope
from stackscope import Context
from stackscope._customization import elaborate_context, unwrap_stackitem
from vlib import par
from vlib.symx import Engine

OB1 = "C13.nesting(single thread)"
OB2 = "C13.two-threads(hand-off)"
FUNCTIONS = ["stackscope._extract.ExtractOptions.push", "stackscope._extract.extract", "stackscope._extract.extract_child",
             "stackscope._extract.fill_context", "stackscope._extract.extract_iter"]


class Abort(BaseException):
    pass


class _M:
    def __enter__(self) -> "_M":
        return self

    def __exit__(self, *a: Any) -> None:
        return None


def _probe_gen():
    with _M():
        yield


PROBE = _probe_gen()
next(PROBE)


def observe() -> Tuple[Optional[bool], Optional[bool]]:
    """(with_contexts, recurse_child_tasks) as seen through behaviour; (None, None) outside."""
    try:
        stub = stackscope.extract_child(PROBE, for_task=True)
    except RuntimeError:
        return (None, None)
    rc = len(stub.frames) > 0
    if stub.root is not PROBE:
        raise AssertionError("stub without root")
    full = stackscope.extract_child(PROBE, for_task=False)
    wc = len(full.frames[0].contexts) > 0
    return (wc, rc)


class Level:
    """A stack item whose unwrap hook is the body of one nesting level."""

    def __init__(self, plan: List[Dict[str, Any]], j: int, log: List[Any], expect: List[Tuple[Any, Any]]):
        self.plan, self.j, self.log, self.expect = plan, j, log, expect


class LevelMgr:
    def __init__(self, lv: Level):
        self.lv = lv


def body(lv: Level) -> None:
    p = lv.plan[lv.j]
    want = lv.expect[-1] if lv.expect else (None, None)
    lv.log.append(("enter", lv.j, observe(), want))
    if lv.j + 1 < len(lv.plan):
        nxt = lv.plan[lv.j + 1]
        child = Level(lv.plan, lv.j + 1, lv.log, lv.expect)
        try:
            if nxt["entry"] == 0:
                lv.expect.append((nxt["wc"], nxt["rc"]))
                try:
                    stackscope.extract(child, with_contexts=nxt["wc"], recurse_child_tasks=nxt["rc"])
                finally:
                    lv.expect.pop()
            elif nxt["entry"] == 1:
                stackscope.extract_child(child, for_task=False)
            elif nxt["entry"] == 2:
                stackscope.fill_context(Context(obj=LevelMgr(child), is_async=False))
            else:
                lv.expect.append((nxt["wc"], nxt["rc"]))
                try:
                    stackscope.extract_outermost(child, with_contexts=nxt["wc"], recurse_child_tasks=nxt["rc"])
                except RuntimeError:
                    pass
                finally:
                    lv.expect.pop()
        except Abort:
            lv.log.append(("caught", lv.j))
        lv.log.append(("after", lv.j, observe(), want))
    if p["abort"]:
        raise Abort()


@unwrap_stackitem.register(Level)
def _unwrap_level(lv: Level) -> Any:
    body(lv)
    return []


@elaborate_context.register(LevelMgr)
def _elab_levelmgr(m: LevelMgr, ctx: Context) -> None:
    body(m.lv)


def nest_case(plan: List[Dict[str, Any]]) -> Optional[str]:
    log: List[Any] = []
    expect: List[Tuple[Any, Any]] = []
    top = plan[0]
    lv = Level(plan, 0, log, expect)
    if observe() != (None, None):
        return "options visible before any extraction"
    try:
        if top["entry"] == 2:
            # fill_context outside any extract pushes (True, False) itself
            expect.append((True, False))
            try:
                stackscope.fill_context(Context(obj=LevelMgr(lv), is_async=False))
            finally:
                expect.pop()
        else:
            expect.append((top["wc"], top["rc"]))
            try:
                stackscope.extract(lv, with_contexts=top["wc"], recurse_child_tasks=top["rc"])
            finally:
                expect.pop()
    except Abort:
        pass
    for rec in log:
        if rec[0] in ("enter", "after"):
            got, want = rec[2], rec[3]
            if got[0] is None or bool(want[0]) != got[0] or bool(want[1]) != got[1]:
                return f"level {rec[1]} {rec[0]}: hooks observed options {got}, expected {(bool(want[0]), bool(want[1]))}"
    if observe() != (None, None):
        return "options still set after the outermost extraction ended"
    try:
        stackscope.extract_child(PROBE, for_task=False)
        return "extract_child ran outside any extraction"
    except RuntimeError:
        pass
    # with_contexts=False leaves contexts empty without changing frames
    a = stackscope.extract(PROBE, with_contexts=True)
    b = stackscope.extract(PROBE, with_contexts=False)
    if [f.pyframe for f in a.frames] != [f.pyframe for f in b.frames] or any(f.contexts for f in b.frames) or not a.frames[0].contexts:
        return "with_contexts=False changed frames or left contexts"
    return None


def _s1(sh: Dict[str, Any]) -> Dict[str, Any]:
    cex: List[Dict[str, Any]] = []
    samples: List[Any] = []
    depth = sh["depth"]

    def harness(e: Engine) -> None:
        plan = []
        for j in range(depth):
            entry = e.choice(f"entry{j}", 4 if j else 2) if j else [0, 2][e.choice("entry0", 2)]
            d = {"entry": entry, "abort": e.flag(f"abort{j}"),
                 "wc": e.bool(f"wc{j}") if entry in (0, 3) else None,
                 "rc": e.bool(f"rc{j}") if entry in (0, 3) else None}
            plan.append(d)
        why = nest_case(plan)
        m = e.model()
        conc = [{"entry": p["entry"], "abort": p["abort"], "wc": m.get(f"wc{j}"), "rc": m.get(f"rc{j}")} for j, p in enumerate(plan)]
        if len(samples) < 1:
            samples.append(conc)
        if why and len(cex) < 3:
            cex.append({"plan": conc, "why": why})

    eng = Engine(max_seconds=300 * (6 if os.environ.get("VERIF_TIER_EFFECTIVE") == "thorough" else 1))
    eng.explore(harness)
    return par.shard_result(eng, shard=f"depth{depth}", cex=cex, samples=samples)


# ------------------------------------------------------------ two threads
class Pauser:
    def __init__(self, name: str, go: threading.Event, reached: threading.Event, log: Dict[str, Any]):
        self.name, self.go, self.reached, self.log = name, go, reached, log


@unwrap_stackitem.register(Pauser)
def _unwrap_pauser(p: Pauser) -> Any:
    p.log[p.name + ".before"] = observe()
    p.reached.set()
    if not p.go.wait(20):
        raise RuntimeError("hand-off timed out")
    p.log[p.name + ".after"] = observe()
    return []


class Nester:
    """B's outer item: its hook runs a NESTED extract (other options) whose own hook is the pause point."""

    def __init__(self, inner: Any, w2: bool, r2: bool, log: Dict[str, Any]):
        self.inner, self.w2, self.r2, self.log = inner, w2, r2, log


@unwrap_stackitem.register(Nester)
def _unwrap_nester(n: Nester) -> Any:
    n.log["B.outer.before"] = observe()
    stackscope.extract(n.inner, with_contexts=n.w2, recurse_child_tasks=n.r2)
    n.log["B.outer.after"] = observe()
    return []


def two_thread_case(wa: Any, ra: Any, wb: Any, rb: Any, b_nested_in_hook: bool) -> Optional[str]:
    log: Dict[str, Any] = {}
    goA, goB, rA, rB = threading.Event(), threading.Event(), threading.Event(), threading.Event()
    errs: List[BaseException] = []
    wa_, ra_, wb_, rb_ = bool(wa), bool(ra), bool(wb), bool(rb)  # decided on the driver thread

    def run(name: str, w: bool, r: bool, go: threading.Event, reached: threading.Event) -> None:
        try:
            item: Any = Pauser(name, go, reached, log)
            if name == "B" and b_nested_in_hook:
                # B: outer extract with the complementary options, nested extract with (wb, rb) around the pause
                item = Nester(item, w, r, log)
                stackscope.extract(item, with_contexts=not w, recurse_child_tasks=not r)
            else:
                stackscope.extract(item, with_contexts=w, recurse_child_tasks=r)
            log[name + ".outside"] = observe()
        except BaseException as ex:  # noqa
            errs.append(ex)

    tA = threading.Thread(target=run, args=("A", wa_, ra_, goA, rA))
    tB = threading.Thread(target=run, args=("B", wb_, rb_, goB, rB))
    tA.start()
    if not rA.wait(20):
        return "thread A never reached its hook"
    tB.start()          # B enters and pauses inside its own extract while A is paused inside A's
    if not rB.wait(20):
        return "thread B never reached its hook"
    goA.set()
    tA.join(20)         # A finishes (pops its options) while B is still inside
    goB.set()
    tB.join(20)
    if errs:
        return f"thread raised {errs[0]!r}"
    exp = {"A.before": (wa_, ra_), "A.after": (wa_, ra_), "B.before": (wb_, rb_), "B.after": (wb_, rb_),
           "A.outside": (None, None), "B.outside": (None, None)}
    if b_nested_in_hook:
        exp["B.outer.before"] = (not wb_, not rb_)
        exp["B.outer.after"] = (not wb_, not rb_)
    for k, v in exp.items():
        if log.get(k) != v:
            return f"{k}: observed {log.get(k)}, expected {v}"
    if observe() != (None, None):
        return "driver thread sees options of another thread's extraction"
    return None


def _s2(sh: Dict[str, Any]) -> Dict[str, Any]:
    cex: List[Dict[str, Any]] = []
    samples: List[Any] = []

    def harness(e: Engine) -> None:
        wa, ra, wb, rb = e.bool("wcA"), e.bool("rcA"), e.bool("wcB"), e.bool("rcB")
        nested = e.flag("B_nests_an_extract_in_its_hook")
        why = two_thread_case(wa, ra, wb, rb, nested)
        m = e.model()
        if len(samples) < 1:
            samples.append(m)
        if why and len(cex) < 3:
            cex.append({"threads": m, "nested": nested, "why": why})

    eng = Engine(max_seconds=300 * (6 if os.environ.get("VERIF_TIER_EFFECTIVE") == "thorough" else 1))
    eng.explore(harness)
    return par.shard_result(eng, shard="two-threads", cex=cex, samples=samples)


def run(rep: Any, tier: str, seed: int) -> None:
    import z3

    rep.engine_name = f"symx (z3 {z3.get_version_string()})"
    rep.functions = FUNCTIONS
    D = 3 if tier == "quick" else 4
    rep.bounds = {"nesting_depth": f"1..{D}", "entry_points": ["extract", "extract_child", "fill_context", "extract_outermost"],
                  "options": "all combinations per level as z3 Bools", "abort": "BaseException raised through the push at any level",
                  "threads": "2, deterministic hand-off schedules: A enters, B enters (optionally: B's hook enters a nested extract), A leaves, B leaves"}
    rep.outside = ["free-running concurrent extractions", "more than two threads", "other hand-off orders"]
    res = par.run_shards("harness.c13", "_s1", [{"depth": d} for d in range(1, D + 1)])
    for c in par.fold(rep, OB1, res):
        rep.counterexample(OB1, c, c["why"])
    res = par.run_shards("harness.c13", "_s2", [{}])
    for c in par.fold(rep, OB2, res):
        rep.counterexample(OB2, c, c["why"])


def replay(c: Dict[str, Any]) -> Dict[str, Any]:
    if "threads" in c:
        t = c["threads"]
        why = two_thread_case(t["wcA"], t["rcA"], t["wcB"], t["rcB"], bool(c.get("nested")))
    else:
        why = nest_case([{k: (bool(v) if k in ("wc", "rc") and v is not None else v) for k, v in p.items()} for p in c["plan"]])
    return {"status": "reproduces" if why else "not-reproduced", "detail": why}


def classify(c: Dict[str, Any], out: Dict[str, Any]) -> Optional[str]:
    return None
