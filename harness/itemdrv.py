"""Shared driver for C10 / C16 (and scenario S3 of C05): synthetic stack-item
trees over a pool of real suspended-generator frames, with hooks registered
through the public API, plus two reference interpreters of the documented
elaborate_frame rules.

Tree encoding (JSON-able):
  ["F", i]            raw frame of pool generator i
  ["G", i]            pool generator i itself (unwraps to (frame, None))
  ["L", j]            irreducible non-frame leaf object j
  ["I", kind, kids]   synthetic Item; kind in tuple|list|iter|single|empty|none
  None                a None entry in a sequence (skipped by extract)
Behaviour encoding per pool frame (elaborate_frame result):
  ["none"] ["prune"] ["empty"] ["rep1", t] ["repseq", [t..]] ["ins", [t..]]
  where t are trees; "rep1" returns the unwrapped object itself (not a sequence),
  "ins" returns (*items, next_inner).
"""
from __future__ import annotations

import types
import weakref
from typing import Any, Dict, List, Optional, Tuple

import stackscope
from stackscope import _extract
from stackscope._customization import elaborate_frame, unwrap_stackitem, yields_frames, PRUNE

NPOOL = 8
_src = "def pool{n}(tag):\n    yield tag\n"
POOL_GENS: List[Any] = []
POOL_CODE: List[types.CodeType] = []
_ns: Dict[str, Any] = {"__name__": "verif_pool"}
for _n in range(NPOOL):
    exec(compile(_src.format(n=_n), f"<pool{_n}>", "exec"), _ns)
    _g = _ns[f"pool{_n}"](_n)
    next(_g)
    POOL_GENS.append(_g)
    POOL_CODE.append(_g.gi_code)
FRAME_INDEX = {id(g.gi_frame): i for i, g in enumerate(POOL_GENS)}


class LeafObj:
    def __init__(self, j: int):
        self.j = j

    def __repr__(self) -> str:
        return f"<leaf{self.j}>"

    # value equality (like a str / tuple / dataclass stack item): all leaves are EQUAL, none identical.  The
    # insert-vs-replace rule of elaborate_frame is about the next_inner OBJECT, never about what compares equal to it.
    def __eq__(self, other: Any) -> bool:
        return isinstance(other, LeafObj)

    def __ne__(self, other: Any) -> bool:
        return not isinstance(other, LeafObj)

    def __hash__(self) -> int:
        return 7


LEAVES = [LeafObj(j) for j in range(3)]


class Item:
    def __init__(self, kind: str, kids: List[Any]):
        self.kind = kind
        self.kids = kids
        self.calls = 0

    def __repr__(self) -> str:
        return f"Item({self.kind},{len(self.kids)})"


class SlotItem:
    """Not weak-referenceable stack item."""

    __slots__ = ("kids",)

    def __init__(self, kids: List[Any]):
        self.kids = kids


@yields_frames
def _iter_kids(kids: List[Any]):
    yield from kids


def _unwrap_item(it: Item) -> Any:
    it.calls += 1
    k = it.kind
    if k == "none":
        return None
    if k == "boom":
        raise LookupError("unwrap hook of this item fails")
    if k == "empty":
        return []
    if k == "tuple":
        return tuple(it.kids)
    if k == "list":
        return list(it.kids)
    if k == "iter":
        return _iter_kids(it.kids)
    if k == "iter_empty":
        return _iter_kids([])          # a @yields_frames iterator that finishes without yielding: "nothing here", like ()
    if k == "single":
        assert len(it.kids) == 1
        return it.kids[0]
    raise AssertionError(k)


unwrap_stackitem.register(Item)(_unwrap_item)
unwrap_stackitem.register(SlotItem)(lambda s: tuple(s.kids))


def build(t: Any) -> Any:
    if t is None:
        return None
    tag = t[0]
    if tag == "F":
        return POOL_GENS[t[1]].gi_frame
    if tag == "G":
        return POOL_GENS[t[1]]
    if tag == "L":
        return LEAVES[t[1]]
    if tag == "I":
        return Item(t[1], [build(k) for k in t[2]])
    if tag == "S":
        return SlotItem([build(k) for k in t[1]])
    raise AssertionError(t)


CURRENT_BEHAVIOUR: Dict[int, Any] = {}
HOOK_LOG: List[Tuple[int, Any]] = []


def _mk_hook(i: int):
    def hook(frame: Any, next_inner: Any) -> Any:
        b = CURRENT_BEHAVIOUR.get(i, ["none"])
        HOOK_LOG.append((i, next_inner))
        k = b[0]
        if k == "none":
            return None
        if k == "prune":
            return PRUNE
        if k == "empty":
            return []
        if k == "rep1":
            return build(b[1])
        if k == "repseq":
            return [build(t) for t in b[1]]
        if k == "ins":
            return (*[build(t) for t in b[1]], next_inner)
        if k == "raise":
            raise RuntimeError(f"hook{i} fails")
        raise AssertionError(b)

    return hook


for _i, _c in enumerate(POOL_CODE):
    elaborate_frame.register(_c, _mk_hook(_i))


def set_behaviour(beh: Dict[int, Any]) -> None:
    CURRENT_BEHAVIOUR.clear()
    CURRENT_BEHAVIOUR.update({int(k): v for k, v in beh.items()})
    HOOK_LOG.clear()


# --------------------------------------------------------------- references
def linearise(t: Any) -> List[Any]:
    """Terminals of a tree in stack order."""
    if t is None:
        return []
    if t[0] in ("F", "G"):
        return [("F", t[1])]
    if t[0] == "L":
        return [("L", t[1])]
    if t[0] == "I":
        if t[1] in ("none", "boom"):
            return [("X", id(t))]  # an irreducible Item is a leaf in its own right
        if t[1] in ("empty", "iter_empty"):
            return []
        out: List[Any] = []
        for k in t[2]:
            out.extend(linearise(k))
        return out
    if t[0] == "S":
        out = []
        for k in t[1]:
            out.extend(linearise(k))
        return out
    raise AssertionError(t)


def ref_flat(tree: Any, beh: Dict[int, Any]) -> Tuple[List[int], List[Any]]:
    """Reading 1: the stack is one list; PRUNE/replace drop all that follows."""
    seq = linearise(tree)
    frames: List[int] = []
    i = 0
    while i < len(seq):
        el = seq[i]
        if el[0] != "F":
            return frames, seq[i:]
        frames.append(el[1])
        b = beh.get(el[1], ["none"])
        k = b[0]
        if k == "none":
            pass
        elif k in ("prune", "empty"):
            del seq[i + 1:]
        elif k == "rep1":
            seq[i + 1:] = linearise(b[1])
        elif k == "repseq":
            new: List[Any] = []
            for t in b[1]:
                new.extend(linearise(t))
            seq[i + 1:] = new
        elif k == "ins":
            new = []
            for t in b[1]:
                new.extend(linearise(t))
            seq[i + 1:i + 1] = new
        else:
            raise AssertionError(b)
        i += 1
        if len(frames) > 200:
            raise RuntimeError("reference diverges")
    return frames, []


class _N:
    __slots__ = ("kind", "val", "kids", "parent")

    def __init__(self, kind: str, val: Any = None):
        self.kind = kind  # 'seq' | 'F' | 'L'
        self.val = val
        self.kids: List["_N"] = []
        self.parent: Optional["_N"] = None


def _to_nodes(t: Any) -> Optional[_N]:
    if t is None:
        return None
    if t[0] == "F":
        return _N("F", t[1])
    if t[0] == "G":
        # a generator unwraps to its own sequence (frame, yield-from target)
        n = _N("seq")
        c = _N("F", t[1])
        c.parent = n
        n.kids.append(c)
        return n
    if t[0] == "L":
        return _N("L", ("L", t[1]))
    if t[0] in ("I", "S"):
        if t[0] == "I" and t[1] in ("none", "boom"):
            return _N("L", ("X", id(t)))
        n = _N("seq")
        kids = [] if (t[0] == "I" and t[1] in ("empty", "iter_empty")) else (t[2] if t[0] == "I" else t[1])
        for k in kids:
            c = _to_nodes(k)
            if c is not None:
                c.parent = n
                n.kids.append(c)
        return n
    raise AssertionError(t)


def _first_terminal(n: _N) -> Optional[_N]:
    if n.kind != "seq":
        return n
    for k in n.kids:
        r = _first_terminal(k)
        if r is not None:
            return r
    return None


def _next_terminal(n: _N) -> Optional[_N]:
    while n.parent is not None:
        p = n.parent
        idx = next(i for i, k in enumerate(p.kids) if k is n)
        for sib in p.kids[idx + 1:]:
            r = _first_terminal(sib)
            if r is not None:
                return r
        n = p
    return None


def ref_scope(tree: Any, beh: Dict[int, Any]) -> Tuple[List[int], List[Any]]:
    """Reading 2: nesting is kept; PRUNE/replace drop only the following members
    of the frame's own sequence; an insert leaves next_inner where it was."""
    root = _N("seq")
    top = _to_nodes(tree)
    if top is not None:
        top.parent = root
        root.kids.append(top)
    frames: List[int] = []
    cur = _first_terminal(root)
    while cur is not None:
        if cur.kind == "L":
            leaves = []
            n: Optional[_N] = cur
            while n is not None:
                leaves.append(n.val if n.kind == "L" else ("F", n.val))
                n = _next_terminal(n)
            return frames, leaves
        frames.append(cur.val)
        b = beh.get(cur.val, ["none"])
        k = b[0]
        p = cur.parent
        assert p is not None
        idx = next(i for i, kk in enumerate(p.kids) if kk is cur)
        if k == "none":
            new_trees: List[Any] = []
        elif k in ("prune", "empty"):
            del p.kids[idx + 1:]
            new_trees = []
        elif k == "rep1":
            del p.kids[idx + 1:]
            new_trees = [b[1]]
        elif k == "repseq":
            del p.kids[idx + 1:]
            new_trees = list(b[1])
        elif k == "ins":
            new_trees = list(b[1])
        else:
            raise AssertionError(b)
        pos = idx + 1
        for t in new_trees:
            c = _to_nodes(t)
            if c is not None:
                c.parent = p
                p.kids.insert(pos, c)
                pos += 1
        cur = _next_terminal(cur)
        if len(frames) > 200:
            raise RuntimeError("reference diverges")
    return frames, []


def lin_depth(t: Any, d: int) -> List[List[Any]]:
    """Terminals with the number of unwrapping layers that reach them (t itself sits at depth d)."""
    if t is None:
        return []
    if t[0] == "F":
        return [[("F", t[1]), d]]
    if t[0] == "G":
        return [[("F", t[1]), d + 1]]
    if t[0] == "L":
        return [[("L", t[1]), d]]
    kids = t[2] if t[0] == "I" else t[1]
    if t[0] == "I" and t[1] in ("none", "boom"):
        return [[("X", id(t)), d]]
    if t[0] == "I" and t[1] in ("empty", "iter_empty"):
        return []
    out: List[List[Any]] = []
    for k in kids:
        out.extend(lin_depth(k, d + 1))
    return out


def ref_depth(tree: Any, beh: Dict[int, Any]) -> Tuple[List[int], List[Any]]:
    """Reading 3, the one the property statement and the code comments spell out: every item
    carries the number of unwrapping layers that reached it; PRUNE / a replacement issued by a
    frame at depth d removes the items that follow it for as long as they are at depth >= d
    ("its callees") and nothing shallower ("nothing outward of them"); an insert puts its items
    (at depth d) before next_inner, which is never left deeper than d."""
    seq = lin_depth(tree, 0)
    frames: List[int] = []
    i = 0
    while i < len(seq):
        el, d = seq[i]
        if el[0] != "F":
            return frames, [x[0] for x in seq[i:]]
        frames.append(el[1])
        b = beh.get(el[1], ["none"])
        k = b[0]
        if k == "none":
            new_trees = None
        elif k in ("prune", "empty"):
            new_trees = []
        elif k == "rep1":
            new_trees = [b[1]]
        elif k == "repseq":
            new_trees = list(b[1])
        elif k == "ins":
            new_trees = list(b[1])
        else:
            raise AssertionError(b)
        if new_trees is not None:
            if k == "ins":
                if i + 1 < len(seq) and seq[i + 1][1] > d:
                    seq[i + 1][1] = d
            else:
                j = i + 1
                while j < len(seq) and seq[j][1] >= d:
                    j += 1
                del seq[i + 1:j]
            new: List[List[Any]] = []
            for t in new_trees:
                new.extend(lin_depth(t, d))
            seq[i + 1:i + 1] = new
        i += 1
        if len(frames) > 200:
            raise RuntimeError("reference diverges")
    return frames, []


def real_extract(tree: Any, beh: Dict[int, Any], with_contexts: bool = False) -> Dict[str, Any]:
    """Run the real extract() on the built tree; return a comparable summary."""
    set_behaviour(beh)
    obj = build(tree)
    try:
        st = stackscope.extract(obj, with_contexts=with_contexts)
    except Exception as ex:  # extract must never raise
        return {"raised": repr(ex), "raised_type": type(ex).__name__}
    frames = [FRAME_INDEX.get(id(f.pyframe), -1) for f in st.frames]
    leaf = st.leaf
    if leaf is None:
        leaves: List[Any] = []
    elif isinstance(leaf, list):
        leaves = [_leaf_id(x) for x in leaf]
    else:
        leaves = [_leaf_id(leaf)]
    return {"frames": frames, "leaves": leaves, "error": repr(st.error) if st.error else None,
            "stack": st, "root_obj": obj}


def _leaf_id(x: Any) -> Any:
    if isinstance(x, LeafObj):
        return ("L", x.j)
    if isinstance(x, stackscope.Frame):
        return ("F", FRAME_INDEX.get(id(x.pyframe), -1))
    if isinstance(x, Item):
        return ("X", "item")
    return ("?", repr(x))


def norm_leaves(ls: List[Any]) -> List[Any]:
    return [("X", "item") if l[0] == "X" else tuple(l) for l in ls]
