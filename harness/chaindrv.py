"""Shared driver for C03 / C16: await / yield-from chains with every link kind.

A chain is a list of link kinds (outermost first) plus a terminal.  build() returns the
root object, already advanced to its suspension point, and the list of generator-like
objects that own each expected frame (for the Frame.origin obligation).
"""
from __future__ import annotations

import types
from typing import Any, Callable, Dict, List, Optional, Tuple

# link kinds usable in an awaiting (coroutine-rooted) chain
AWAIT_KINDS = ["coro", "typescoro", "await_wrapper", "await_gen", "agen_asend", "agen_anext", "agen_asyncfor",
               "agen_athrow", "agen_aclose", "agen_asendval"]
# link kinds of a plain-generator chain
GEN_KINDS = ["yield_from", "yield_from_iterwrap"]
TERMINALS = ["trap", "iter_leaf"]
ROOTS = ["coroutine", "generator", "async_generator", "async_generator_thrown"]


class Probe(Exception):
    pass


class Flag(Exception):
    pass


class IterLeaf:
    """Awaitable whose __await__ returns a plain iterator: ends the chain as a non-frame leaf."""

    def __init__(self) -> None:
        self.n = 0

    def __await__(self) -> "IterLeaf":
        return self

    def __iter__(self) -> "IterLeaf":
        return self

    def __next__(self) -> str:
        self.n += 1
        if self.n == 1:
            return "leaf-trap"
        raise StopIteration


@types.coroutine
def trap() -> Any:
    yield "trap"


@types.coroutine
def done() -> Any:
    if False:
        yield
    return None


class Reg:
    def __init__(self) -> None:
        self.owners: List[Any] = []   # generator-like object owning expected frame i (None if n/a)

    def own(self, o: Any) -> Any:
        self.owners.append(o)
        return o


def as_iter(x: Any) -> Any:
    """What `yield from` can delegate to: a generator-based coroutine / generator as it is, anything else through __await__."""
    if isinstance(x, types.GeneratorType):
        return x
    return x.__await__()


class Wrapper:
    def __init__(self, inner: Any):
        self.inner = inner

    def __await__(self) -> Any:
        return as_iter(self.inner)


class GenAwait:
    def __init__(self, mk: Callable[[], Any], reg: Reg):
        self.mk = mk
        self.reg = reg
        self.gen: Any = None

    def __await__(self) -> Any:
        self.gen = self._g()
        self.reg.own(self.gen)
        return self.gen

    def _g(self) -> Any:
        return (yield from as_iter(self.mk()))


def make_awaitable(kinds: List[str], terminal: str, reg: Reg, pre: bool) -> Callable[[], Any]:
    """Factory for the awaitable that represents kinds[0:], innermost = terminal."""
    if not kinds:
        if terminal == "trap":
            def mk_trap() -> Any:
                return reg.own(trap())

            return mk_trap
        return lambda: IterLeaf()
    k, rest = kinds[0], kinds[1:]
    inner = make_awaitable(rest, terminal, reg, pre)

    if k == "coro":
        async def node() -> Any:
            if pre:
                await done()
            return await inner()

        return lambda: reg.own(node())
    if k == "typescoro":
        @types.coroutine
        def gnode() -> Any:
            if pre:
                yield from done()
            x = inner()
            # a generator-based coroutine may delegate to a native coroutine or a generator directly; other awaitables through __await__
            return (yield from (x if isinstance(x, (types.GeneratorType, types.CoroutineType)) else x.__await__()))

        return lambda: reg.own(gnode())
    if k == "await_wrapper":
        async def helper() -> Any:
            return await inner()

        return lambda: Wrapper(reg.own(helper()))
    if k == "await_gen":
        return lambda: GenAwait(inner, reg)
    if k.startswith("agen_"):
        mode = k[5:]

        async def agen() -> Any:
            if mode == "athrow":
                try:
                    yield 0
                except Flag:
                    await inner()
                    yield 1
            elif mode == "aclose":
                try:
                    yield 0
                finally:
                    await inner()
            elif mode == "asendval":
                got = yield 0  # the value sent in is itself a (started) async generator: a second object with an ag_frame
                await inner()
                yield got
            else:
                await inner()
                yield 1

        async def driver() -> Any:
            ag = agen()
            if mode == "asend":
                reg.own(ag)
                return await ag.asend(None)
            if mode == "anext":
                reg.own(ag)
                return await ag.__anext__()
            if mode == "asyncfor":
                reg.own(ag)
                async for _ in ag:
                    break
                return None
            await ag.asend(None)
            reg.own(ag)
            if mode == "asendval":
                async def payload() -> Any:
                    yield "payload"
                    yield "payload2"

                pl = payload()
                await pl.asend(None)
                try:
                    return await ag.asend(pl)
                finally:
                    await pl.aclose()
            if mode == "athrow":
                return await ag.athrow(Flag())
            return await ag.aclose()

        return lambda: reg.own(driver())
    raise AssertionError(k)


def make_generator(kinds: List[str], reg: Reg) -> Callable[[], Any]:
    if not kinds:
        def leafgen() -> Any:
            yield "gen-trap"

        return lambda: reg.own(leafgen())
    k, rest = kinds[0], kinds[1:]
    inner = make_generator(rest, reg)
    if k == "yield_from":
        def g() -> Any:
            return (yield from inner())

        return lambda: reg.own(g())
    if k == "yield_from_iterwrap":
        def g2() -> Any:
            x = 1  # noqa: F841
            return (yield from inner())

        return lambda: reg.own(g2())
    raise AssertionError(k)


def build(root: str, kinds: List[str], terminal: str, pre: bool) -> Tuple[Any, Any, Reg]:
    """Returns (root object x, handle to throw into, registry); x is suspended."""
    reg = Reg()
    if root == "generator":
        x = make_generator(kinds, reg)()
        next(x)
        # ownership order: make_generator registers outermost first because each g() body runs lazily
        return x, x, reg
    if root == "coroutine":
        async def top() -> Any:
            return await make_awaitable(kinds, terminal, reg, pre)()

        x = reg.own(top())
        x.send(None)
        return x, x, reg

    if root == "async_generator_thrown":
        # An async generator that reaches its inner await because an exception was THROWN into a fresh asend()
        # awaitable (a retry loop): on CPython the generator is then suspended at an await although ag_running is False.
        class Retry(Exception):
            pass

        async def topgen_t() -> Any:
            try:
                yield 0
            except Retry:
                pass
            await make_awaitable(kinds, terminal, reg, pre)()
            yield 1

        x = reg.own(topgen_t())
        first = x.asend(None)
        try:
            first.send(None)
        except StopIteration:
            pass
        aw = x.asend(None)
        aw.throw(Retry())
        return x, aw, reg

    async def topgen() -> Any:
        await make_awaitable(kinds, terminal, reg, pre)()
        yield 1

    x = reg.own(topgen())
    aw = x.asend(None)
    aw.send(None)
    return x, aw, reg


def traceback_frames(handle: Any, skip_code: Any = None) -> List[Tuple[Any, int]]:
    """Throw Probe into the chain; return [(frame, lineno)] of the traceback, outermost first,
    without the frame that did the throwing."""
    try:
        handle.throw(Probe())
    except Probe as ex:
        tb = ex.__traceback__
        out = []
        while tb is not None:
            if tb.tb_frame.f_code is not traceback_frames.__code__ and tb.tb_frame.f_code is not skip_code:
                out.append((tb.tb_frame, tb.tb_lineno))
            tb = tb.tb_next
        return out
    except BaseException as ex:  # noqa
        raise AssertionError(f"probe exception was swallowed or replaced: {ex!r}")
    raise AssertionError("probe exception was swallowed")
