"""C10 -- frame hooks: unwrap to a fixpoint; elaborate_frame edits only the inward rest.

Engine: symx.  Real code: stackscope.extract -> extract_child -> extract_iter in
full, FrameIterator / yields_frames, the public hook registries.
Symbolic: tree shape, sequence kind per nesting level, raw-frame vs generator
terminals, elaborate behaviour per pool frame (all `choice` variables: the
solver enumerates the product and certifies it complete), and -- the one place
a number flows into the real code's own comparisons -- the repeat count `n` of
a self-returning / chain-of-wrappers item against the 100-step guard.
"""
from __future__ import annotations

import os
from typing import Any, Dict, List, Optional

from vlib import par
from vlib.symx import Engine, Violation

from harness import itemdrv as D

OBLIG_RULES = "C10.rules(two-readings+metamorphic)"
OBLIG_GUARD = "C10.guard100"

FUNCTIONS = [
    "stackscope._extract.extract", "stackscope._extract.extract_child",
    "stackscope._extract.extract_iter", "stackscope._extract.better_origin",
    "stackscope._customization.FrameIterator.__next__", "stackscope._customization.yields_frames",
    "stackscope._customization.unwrap_stackitem (singledispatch)",
    "stackscope._customization.elaborate_frame (code_dispatch)",
]


def shapes(ko: str, ki: str, T) -> List[Any]:
    a, b, c = T(0), T(1), T(2)
    I = lambda k, kids: ["I", k, kids]  # noqa: E731
    return [
        I(ko, [a, b, c]),
        I(ko, [a, I(ki, [b, I(ki, [c])])]),
        I(ko, [I(ki, [a]), b, c]),
        I(ko, [I(ki, [a, b]), c]),
        I(ko, [a, I(ki, [b]), c]),
        I(ko, [a, I(ki, [b, c])]),
        I("single", [I(ko, [a, b, c])]),
        I(ko, [a, b, c, ["L", 0]]),
        I(ko, [a, I(ki, [b, I(ki, [c, ["L", 0]])])]),
        I(ko, [a, b, ["L", 0], ["L", 1]]),
        I(ko, [I("empty", []), a, None, b, I("iter_empty", []), c]),
        I(ko, [I(ki, [I(ki, [a]), b]), c]),
        I(ko, [a, b, I("none", [])]),
        ["S", [a, I(ki, [b]), c]],
        I(ko, [I(ki, [a]), I(ki, [b]), I(ki, [c])]),
        I(ko, [I(ki, [I(ki, [a]), b, c])]),
        I(ko, [I(ki, [a, b]), I(ki, [c])]),
        I(ko, [I(ki, [a]), I("single", [I(ki, [b, c])])]),
    ]


NSHAPES = 18
X, Y, Z = ["F", 3], ["F", 4], ["F", 5]
BEH_ABC = [
    ["none"], ["prune"], ["empty"], ["rep1", X], ["repseq", [X, Y]],
    ["ins", [X]], ["ins", [["I", "tuple", [X, Y]]]], ["rep1", ["I", "list", [X]]],
    # a REPLACEMENT whose last element is a leaf that compares equal to (but is not) the leaf that may follow the frame
    ["repseq", [X, ["L", 2]]],
]
BEH_X = [["none"], ["prune"], ["ins", [Z]]]
BEH_Y = [["none"], ["prune"]]
KINDS = ["tuple", "list", "iter"]


def _insert_after(frames: List[int], a: int, new: List[int]) -> Optional[List[int]]:
    if a not in frames:
        return None
    i = frames.index(a)
    return frames[: i + 1] + new + frames[i + 1:]


def judge(tree: Any, beh: Dict[int, Any]) -> Dict[str, Any]:
    """Evaluate one concrete input against all obligations.  Used by both the
    symbolic harness and the replay (so the replay is the same real run)."""
    out: Dict[str, Any] = {"ok": True, "ambiguous": False}
    real = D.real_extract(tree, beh)
    if "raised" in real:
        out.update(ok=False, why="extract raised", raised=real["raised"], raised_type=real["raised_type"],
                   last_hook=[D.HOOK_LOG[-1][0], D.HOOK_LOG[-1][1] is None] if D.HOOK_LOG else None)
        return out
    out["real"] = [real["frames"], real["leaves"]]
    # M1: all hooks None gives the full linearisation
    base = D.real_extract(tree, {})
    lin = D.linearise(tree)
    exp_frames = []
    for el in lin:
        if el[0] != "F":
            break
        exp_frames.append(el[1])
    exp_leaves = D.norm_leaves(lin[len(exp_frames):])
    if base.get("frames") != exp_frames or D.norm_leaves(base.get("leaves", [])) != exp_leaves or base.get("error"):
        out.update(ok=False, why="M1: no-op hooks do not give the full linearisation",
                   expected=[exp_frames, exp_leaves], got=[base.get("frames"), base.get("leaves"), base.get("error")])
        return out
    # M3: an insert of frames with no-op hooks leaves the remainder untouched
    for a, b in beh.items():
        if b[0] == "ins":
            ins_frames = [el[1] for t in b[1] for el in D.linearise(t)]
            if any(beh.get(i, ["none"])[0] != "none" for i in ins_frames):
                continue
            beh2 = dict(beh)
            beh2[a] = ["none"]
            # M3 compares two runs of the real code; that is reading-independent only
            # if the run without the insert is itself unambiguous
            g1, g2 = D.ref_flat(tree, beh2), D.ref_scope(tree, beh2)
            if g1[0] != g2[0] or D.norm_leaves(g1[1]) != D.norm_leaves(g2[1]):
                continue
            r2 = D.real_extract(tree, beh2)
            if "raised" in r2:
                continue
            # only meaningful when `a` is not innermost-with-nothing-after in r2 (handled by M2/F6)
            exp = _insert_after(r2["frames"], a, ins_frames)
            if exp is None or r2["frames"].count(a) != 1:
                continue
            if any(f in r2["frames"] for f in ins_frames):
                continue  # the inserted frames also occur elsewhere: not a clean comparison
            if exp != real["frames"] or D.norm_leaves(r2["leaves"]) != D.norm_leaves(real["leaves"]):
                out.update(ok=False, why="M3: insert-before changed the remainder", inserter=a,
                           expected=[exp, r2["leaves"]], got=[real["frames"], real["leaves"]])
                return out
    # the depth reading decides every input
    f3, l3 = D.ref_depth(tree, beh)
    if real["frames"] != f3 or D.norm_leaves(real["leaves"]) != D.norm_leaves(l3):
        out.update(ok=False, why="result differs from the depth-based reference interpretation",
                   expected=[f3, D.norm_leaves(l3)], got=[real["frames"], real["leaves"]])
        f1, l1 = D.ref_flat(tree, beh)
        f2, l2 = D.ref_scope(tree, beh)
        out["ambiguous"] = f1 != f2 or D.norm_leaves(l1) != D.norm_leaves(l2)
        return out
    # the two loose readings of the documentation (kept as a cross-check of the reference itself)
    f1, l1 = D.ref_flat(tree, beh)
    f2, l2 = D.ref_scope(tree, beh)
    if f1 != f2 or D.norm_leaves(l1) != D.norm_leaves(l2):
        out["ambiguous"] = True
        return out
    if real["frames"] != f1 or D.norm_leaves(real["leaves"]) != D.norm_leaves(l1):
        out.update(ok=False, why="result differs from both reference readings",
                   expected=[f1, D.norm_leaves(l1)], got=[real["frames"], real["leaves"]])
        return out
    if real["error"] is not None:
        out.update(ok=False, why="unexpected error recorded", got=real["error"])
    return out


def _rules_shard(shard: Dict[str, Any]) -> Dict[str, Any]:
    tier = shard["tier"]
    si = shard["shape"]
    stats = {"ambiguous": 0, "compared": 0}
    cex: List[Dict[str, Any]] = []
    samples: List[Any] = []
    seen_kinds: list = []

    def harness(e: Engine) -> None:
        if tier == "quick":
            combo = e.choice("kinds_mode", 4)
            ko, ki, gen = [("tuple", "tuple", False), ("list", "iter", True), ("iter", "list", False), ("iter", "tuple", True)][combo]
        else:
            ko = KINDS[e.choice("kind_outer", 3)]
            ki = KINDS[e.choice("kind_inner", 3)]
            gen = e.flag("terminals_are_generators")
        T = (lambda i: ["G", i]) if gen else (lambda i: ["F", i])
        tree = shapes(ko, ki, T)[si]
        ba = BEH_ABC[e.choice("beh_a", len(BEH_ABC))]
        bb = BEH_ABC[e.choice("beh_b", len(BEH_ABC))]
        nb_c = BEH_ABC if tier != "quick" else [BEH_ABC[0], BEH_ABC[1], BEH_ABC[3], BEH_ABC[5]]
        bc = nb_c[e.choice("beh_c", len(nb_c))]
        beh: Dict[int, Any] = {0: ba, 1: bb, 2: bc}
        uses_x = any(b[0] in ("rep1", "repseq", "ins") for b in (ba, bb, bc))
        if uses_x:
            beh[3] = BEH_X[e.choice("beh_x", len(BEH_X))]
            if tier != "quick":
                beh[4] = BEH_Y[e.choice("beh_y", len(BEH_Y))]
        res = judge(tree, beh)
        if res["ambiguous"]:
            stats["ambiguous"] += 1
        else:
            stats["compared"] += 1
        if len(samples) < 2 and not res["ambiguous"]:
            samples.append({"tree": tree, "beh": beh, "result": res.get("real")})
        if not res["ok"]:
            kind = (res["why"], res.get("raised_type"))
            if sum(1 for k in seen_kinds if k == kind) < 2:
                seen_kinds.append(kind)
                cex.append({"tree": tree, "beh": {str(k): v for k, v in beh.items()}, "why": res["why"],
                            "detail": {k: v for k, v in res.items() if k not in ("ok", "ambiguous")}})

    eng = Engine(max_seconds=shard.get("budget", 900), max_paths=10**7)
    eng.explore(harness)
    return par.shard_result(eng, shard=f"shape{si}", cex=cex, samples=samples,
                            extra={"ambiguous_skipped": stats["ambiguous"], "compared_unambiguous": stats["compared"]})


# ------------------------------------------------------------- 100-step guard
class Rep:
    """Stack item that returns itself (or a fresh wrapper) `n` times, then a frame."""

    def __init__(self, n: Any, mode: str):
        self.n = n
        self.mode = mode
        self.count = 0


def _unwrap_rep(r: Rep) -> Any:
    if r.mode == "after_frame":
        # one frame of progress first, THEN a self-returning chain of n: the count starts afresh after the frame
        inner = Rep(r.n, "self")
        return (D.POOL_GENS[6].gi_frame, inner)
    if r.count < r.n:  # symbolic comparison: the solver splits n here
        r.count += 1
        if r.mode == "self":
            return r
        if r.mode == "fresh":
            nr = Rep(r.n, r.mode)
            nr.count = r.count
            return nr
        if r.mode == "progress":  # a frame in between resets the guard
            return (D.POOL_GENS[6].gi_frame, r)
    return D.POOL_GENS[7].gi_frame


D.unwrap_stackitem.register(Rep)(_unwrap_rep)


def guard_case(n: Any, mode: str) -> Dict[str, Any]:
    import stackscope

    r = Rep(n, mode)
    D.set_behaviour({})
    try:
        st = stackscope.extract(r, with_contexts=False)
    except Exception as ex:
        return {"ok": False, "why": f"extract raised {ex!r}"}
    nf = len(st.frames)
    nn = int(n)
    if mode == "progress":
        ok = nf == nn + 1 and st.error is None and st.leaf is None
        return {"ok": ok, "why": f"progress chain n={nn}: frames={nf} error={st.error!r}", "n": nn}
    if mode == "after_frame":
        if nn <= 99:
            ok = nf == 2 and st.error is None and st.leaf is None
        else:
            ok = nf == 1 and isinstance(st.error, RuntimeError) and isinstance(st.leaf, Rep) and st.frames[0].pyframe is D.POOL_GENS[6].gi_frame
        return {"ok": ok, "why": f"a frame, then a self-returning chain n={nn}: frames={nf} error={st.error!r} leaf={st.leaf!r}", "n": nn}
    if nn <= 99:
        ok = nf == 1 and st.error is None and st.leaf is None and st.frames[0].pyframe is D.POOL_GENS[7].gi_frame
    else:
        ok = nf == 0 and isinstance(st.error, RuntimeError) and isinstance(st.leaf, Rep)
    return {"ok": ok, "why": f"{mode} chain n={nn}: frames={nf} error={st.error!r} leaf={st.leaf!r}", "n": nn}


def _guard_shard(shard: Dict[str, Any]) -> Dict[str, Any]:
    mode = shard["mode"]
    cex: List[Dict[str, Any]] = []
    samples: List[Any] = []

    def harness(e: Engine) -> None:
        n = e.int("n", 0, shard["hi"])
        res = guard_case(n, mode)
        if len(samples) < 1:
            samples.append({"guard_mode": mode, "n": res.get("n")})
        if not res["ok"] and len(cex) < 3:
            cex.append({"guard": mode, "n": res.get("n", int(n)), "why": res["why"]})

    eng = Engine(max_seconds=600)
    eng.explore(harness)
    return par.shard_result(eng, shard=f"guard-{mode}", cex=cex, samples=samples)


# ----------------------------------------------------------------- interface
def run(rep: Any, tier: str, seed: int) -> None:
    rep.engine_name = "symx (z3 %s), real extract_iter on real frames" % __import__("z3").get_version_string()
    rep.functions = FUNCTIONS
    rep.bounds = {
        "tree_shapes": NSHAPES, "nesting_depth": 3, "tree_frames": 3, "inserted_frames": 3,
        "elaborate_behaviours_per_frame": len(BEH_ABC),
        "sequence_kinds": KINDS if tier != "quick" else "4 (outer,inner,terminal) combinations",
        "guard_n": "0..130 (all of 0..99, 100, 101 and the class >=101 split by the solver)",
    }
    rep.outside = ["trees beyond the listed shapes", "hooks that mutate the tree while it is walked",
                   "non-frame leaves in the middle of a stack", "inputs on which the flat and scope readings of the documentation disagree (counted as ambiguous_skipped)"]
    rep.assumptions = ["elaborate hooks are deterministic functions of (frame, next_inner)",
                       "verdict against the references only where both documented readings agree; metamorphic obligations M1-M3 on every input"]
    shards = [{"tier": tier, "shape": s} for s in range(NSHAPES)]
    res = par.run_shards("harness.c10", "_rules_shard", shards)
    for c in par.fold(rep, OBLIG_RULES, res):
        rep.counterexample(OBLIG_RULES, c, c["why"])
    gsh = [{"mode": m, "hi": 130} for m in ("self", "fresh", "progress", "after_frame")]
    res = par.run_shards("harness.c10", "_guard_shard", gsh)
    for c in par.fold(rep, OBLIG_GUARD, res):
        rep.counterexample(OBLIG_GUARD, c, c["why"])


def replay(case: Dict[str, Any]) -> Dict[str, Any]:
    if "guard" in case:
        r = guard_case(case["n"], case["guard"])
        return {"status": "reproduces" if not r["ok"] else "not-reproduced", "detail": r}
    beh = {int(k): v for k, v in case["beh"].items()}
    r = judge(case["tree"], beh)
    return {"status": "reproduces" if not r["ok"] else "not-reproduced", "detail": {k: v for k, v in r.items()}}


def classify(case: Dict[str, Any], out: Dict[str, Any]) -> Optional[str]:
    d = out.get("detail", {})
    if d.get("raised_type") == "IndexError" and d.get("last_hook") and d["last_hook"][1]:
        beh = case.get("beh", {})
        if beh.get(str(d["last_hook"][0]), ["none"])[0] == "ins":
            return "F6"
    if d.get("why", "").startswith("M3") or d.get("why", "").startswith("result differs"):
        exp, got = d.get("expected"), d.get("got")
        if exp and got and got[0][: len(exp[0])] == exp[0] and len(got[0]) > len(exp[0]):
            if any(b[0] == "ins" for b in case.get("beh", {}).values()):
                return "F7"
    return None
