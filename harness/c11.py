"""C11 -- context hooks: elaborate, unwrap, re-elaborate until steady state.

Engine: symx.  Real code: _extract.fill_context (both entry paths), the
registered unwrap_generatorbased_contextmanager / elaborate_generatorbased_
contextmanager from glue_contextlib (both lookup paths), unwrap_context /
elaborate_context / unwrap_context_generator dispatch.
Symbolic: chain length n as a z3 Int in 0..105 (the hook compares its step
counter with n, so the solver splits n at every step: 0,1,..,99,100,>=101),
ending, manager family, elaborate variant, exiting flag, entry path.
"""
from __future__ import annotations

import contextlib
from typing import Any, Dict, List, Optional

import stackscope
from stackscope import Context, Stack, _extract
from stackscope._customization import PRUNE, elaborate_context, unwrap_context, unwrap_context_generator
from vlib import par
from vlib.symx import Engine

OB = "C11.fill_context(chain n symbolic)"
FUNCTIONS = ["stackscope._extract.fill_context", "stackscope._glue.glue_contextlib.unwrap_generatorbased_contextmanager",
             "stackscope._glue.glue_contextlib.elaborate_generatorbased_contextmanager",
             "stackscope._extract.extract_outermost / extract_child (generator-based lookup paths)",
             "stackscope._customization.unwrap_context / elaborate_context / unwrap_context_generator"]

ENDINGS = ["none", "prune", "cycle", "prune_list"]
STATE: Dict[str, Any] = {}
LOG: List[Dict[str, Any]] = []


class Mgr:
    """(Falsy, like an empty pool or an empty mapping that is a context manager: only None / PRUNE / () end a chain.)"""

    def __init__(self, k: int):
        self.k = k

    def __bool__(self) -> bool:
        return self.k % 2 == 1      # every other manager of a chain is falsy

    # value equality, like a dataclass manager: every link of a chain is EQUAL to every other and identical to none
    # (the steps of fill_context are about which object the context holds, never about what it compares equal to)
    def __eq__(self, other: Any) -> bool:
        return isinstance(other, Mgr)

    def __ne__(self, other: Any) -> bool:
        return not isinstance(other, Mgr)

    def __hash__(self) -> int:
        return 11

    def __len__(self) -> int:
        return self.k % 2

    def __enter__(self) -> "Mgr":
        return self

    def __exit__(self, *a: Any) -> None:
        return None


class Shadow:
    """What an elaborate hook may redirect Context.obj to (cf. trio nursery glue)."""

    def __init__(self, k: int):
        self.k = k


def _next(k: int, fam: str) -> Any:
    n, ending = STATE["n"], STATE["ending"]
    if k < n:  # symbolic: the solver splits n here
        return _make(k + 1, fam)
    if ending == "none":
        return None
    if ending == "prune":
        return PRUNE
    if ending == "prune_list":
        return ()
    return STATE["objs"][k]  # cycle: the same manager again


def _make(k: int, fam: str) -> Any:
    if fam == "gen":
        # odd links delegate with `yield from`, so inner_stack has two frames and
        # the hook must be dispatched on (and given) the outermost one
        m = (gcm_yf if k % 2 else gcm)(k)
        m.__enter__()
    else:
        m = Mgr(k)
    STATE["objs"][k] = m
    return m


@elaborate_context.register(Mgr)
def _elab_mgr(m: Mgr, ctx: Context) -> None:
    LOG.append({"k": m.k, "obj_is_m": ctx.obj is m, "inner_none": ctx.inner_stack is None,
                "children_empty": len(ctx.children) == 0})
    ctx.description = f"d{m.k}"
    ctx.children = [Context(obj=None, is_async=False, description=f"child{m.k}")]
    ctx.inner_stack = Stack(root=m, frames=[])
    if STATE["redirect"]:
        ctx.obj = Shadow(m.k)


@unwrap_context.register(Mgr)
def _unwrap_mgr(m: Mgr, ctx: Context) -> Any:
    if STATE["redirect"]:
        # the elaborate hook has replaced context.obj by a Shadow: the unwrap step must be
        # dispatched on what the context holds NOW, so this hook must not be consulted
        LOG.append({"k": m.k, "stale_unwrap": True})
        return None
    return _next(m.k, "cls")


@unwrap_context.register(Shadow)
def _unwrap_shadow(s: Shadow, ctx: Context) -> Any:
    return _next(s.k, "cls")


class Inner:
    """What a generator-based manager wraps (cf. the pytest-trio fixture-manager glue, which finds
    the nursery to unwrap to in frame.contexts)."""

    def __enter__(self) -> "Inner":
        return self

    def __exit__(self, *a: Any) -> None:
        return None


@contextlib.contextmanager
def gcm(k: int):
    with Inner():
        yield k


def _delegate(j: int):
    with Inner():
        yield j


@contextlib.contextmanager
def gcm_yf(k: int):
    yield from _delegate(k)


@unwrap_context_generator.register(gcm_yf)
@unwrap_context_generator.register(gcm)
def _unwrap_gcm(frame: Any, ctx: Context) -> Any:
    k = frame.pyframe.f_locals["k"]
    # the frame handed to the hook is a full extraction on BOTH lookup paths: its contexts are filled in
    # (even links hold their `with Inner()` themselves; odd links delegate it to a callee via yield from)
    sees_inner = len(frame.contexts) == 1 and isinstance(frame.contexts[0].obj, Inner)
    LOG.append({"k": k, "gen_hook": True, "inner_present": ctx.inner_stack is not None,
                "obj_k": getattr(getattr(ctx.obj, "gen", None), "gi_frame", None) is frame.pyframe,
                "frame_contexts_ok": sees_inner if k % 2 == 0 else len(frame.contexts) == 0})
    return _next(k, "gen")


def _holder(m: Any):
    with m:
        yield


def case(n: Any, ending: str, fam: str, redirect: bool, exiting: bool, entry: int) -> Optional[str]:
    """entry 0: fill_context outside any extract; 1: inside extract (frame.contexts of a real frame)."""
    STATE.update(n=n, ending=ending, redirect=redirect, objs={})
    LOG.clear()
    raised: Optional[BaseException] = None
    ctx: Optional[Context] = None
    if entry == 0:
        m0 = _make(0, fam)
        ctx = Context(obj=m0, is_async=False, is_exiting=exiting)
        try:
            stackscope.fill_context(ctx)
        except Exception as ex:
            raised = ex
    else:
        # real frame holding the (not yet entered) manager: class-based enters in the with,
        # generator-based must be fresh for the with statement
        if fam == "gen":
            m0 = gcm(0)
            STATE["objs"][0] = m0
        else:
            m0 = Mgr(0)
            STATE["objs"][0] = m0
        g = _holder(m0)
        next(g)
        try:
            st = stackscope.extract(g)
        except Exception as ex:
            return f"extract raised {ex!r}"
        finally:
            pass
        if len(st.frames) != 1 or len(st.frames[0].contexts) != 1:
            return f"unexpected extraction: {st}"
        ctx = st.frames[0].contexts[0]
        raised = st.error
        STATE["keepalive"] = g
    # ---- expectations
    # decide the class of n without realising it
    if ending == "cycle":
        expect_error = True
    elif n >= 101:
        expect_error = True
    elif n == 100:
        expect_error = None  # boundary: either outcome is within "more than 100 steps"
    else:
        expect_error = False
    if expect_error is True:
        if not isinstance(raised, RuntimeError):
            return f"expected RuntimeError after >100 steps, got {raised!r}"
        return None
    if expect_error is None:
        return None
    if raised is not None:
        return f"unexpected error {raised!r}"
    nn = int(n)  # now bounded: 0..99
    objs = STATE["objs"]
    last = objs[nn]
    if fam == "cls":
        if any(r.get("stale_unwrap") for r in LOG):
            return "unwrap_context was dispatched on the manager that elaborate_context had already replaced"
        el = [r for r in LOG if "gen_hook" not in r]
        if [r["k"] for r in el] != list(range(nn + 1)):
            return f"elaborate_context ran on {[r['k'] for r in el][:8]}.., expected 0..{nn}"
        for r in el:
            if not (r["obj_is_m"] and r["inner_none"] and r["children_empty"]):
                return f"re-elaboration of step {r['k']} saw stale state: {r}"
        final_obj_ok = (isinstance(ctx.obj, Shadow) and ctx.obj.k == nn) if redirect else (ctx.obj is last)
        if not final_obj_ok:
            return f"final obj is {ctx.obj!r} (k={getattr(ctx.obj, 'k', None)}), expected manager {nn}"
        if ctx.description != f"d{nn}" or len(ctx.children) != 1 or ctx.children[0].description != f"child{nn}":
            return f"final description/children not those of the last elaboration: {ctx.description!r}"
        if ctx.inner_stack is None or ctx.inner_stack.root is not last:
            return "final inner_stack not that of the last elaboration"
    else:
        hooks = [r for r in LOG if r.get("gen_hook")]
        if [r["k"] for r in hooks] != list(range(nn + 1)):
            return f"unwrap_context_generator ran on {[r['k'] for r in hooks][:8]}.., expected 0..{nn}"
        for r in hooks:
            if not r["obj_k"]:
                return f"hook for step {r['k']} saw a frame that is not ctx.obj's generator frame"
            if not r["frame_contexts_ok"]:
                return f"hook for step {r['k']} was handed a frame whose contexts are not filled in"
            if r["inner_present"] != (not (exiting and entry == 0)):
                return f"step {r['k']}: inner_stack presence {r['inner_present']} with exiting={exiting}"
        if ctx.obj is not last:
            return f"final obj is not generator-based manager {nn}"
        want_inner = not (exiting and entry == 0)
        if want_inner:
            if ctx.inner_stack is None or len(ctx.inner_stack.frames) != (2 if nn % 2 else 1) or \
                    ctx.inner_stack.frames[0].pyframe is not last.gen.gi_frame:
                return "final inner_stack is not the extraction of the last manager's generator"
        elif ctx.inner_stack is not None:
            return "exiting context has an inner_stack"
        if ctx.description is None or "gcm" not in ctx.description:
            return f"description {ctx.description!r}"
    want_hide = ending in ("prune", "prune_list")
    if ctx.hide != want_hide:
        return f"hide={ctx.hide} after ending {ending}"
    return None


def _shard(sh: Dict[str, Any]) -> Dict[str, Any]:
    cex: List[Dict[str, Any]] = []
    samples: List[Any] = []
    ending, fam, lo, hi = sh["ending"], sh["fam"], sh["lo"], sh["hi"]

    def harness(e: Engine) -> None:
        redirect = e.flag("redirect") if fam == "cls" else False
        exiting = e.flag("exiting")
        entry = e.choice("entry", 2)
        n = e.int("n", lo, hi)
        why = case(n, ending, fam, redirect, exiting, entry)
        if len(samples) < 1:
            samples.append({"n(one model value)": e.model().get("n"), "ending": ending, "family": fam,
                            "redirect": redirect, "exiting": exiting, "entry": entry})
        if why and len(cex) < 3:
            cex.append({"n": e.model().get("n"), "ending": ending, "fam": fam, "redirect": redirect,
                        "exiting": exiting, "entry": entry, "why": why})

    eng = Engine(max_seconds=sh.get("budget", 300))
    eng.explore(harness)
    return par.shard_result(eng, shard=f"{fam}/{ending}/n{lo}-{hi}", cex=cex, samples=samples)


def run(rep: Any, tier: str, seed: int) -> None:
    import z3

    rep.engine_name = f"symx (z3 {z3.get_version_string()})"
    rep.functions = FUNCTIONS
    ranges = [(0, 40), (41, 70), (71, 90), (91, 105)] if tier == "quick" else [(0, 30), (31, 55), (56, 75), (76, 90), (91, 99), (100, 130)]
    rep.bounds = {"n": "every integer in 0..105 (thorough 0..130) as a z3 Int, split by the solver",
                  "endings": ENDINGS, "families": ["class-based via unwrap_context", "generator-based via unwrap_context_generator"],
                  "elaborate": "sets description, children, inner_stack; optionally redirects obj", "exiting": [False, True],
                  "entry": ["fill_context outside extract", "Frame.contexts inside extract"]}
    rep.outside = ["managers whose __eq__ makes them equal to ()", "n beyond the bound (same loop body; the guard is the constant 100)",
                   "n == 100 exactly is accepted with either outcome (boundary of 'more than 100 steps')"]
    shards = []
    fams = ["cls", "gen"]
    for fam in fams:
        for ending in ENDINGS:
            for lo, hi in ranges:
                if fam == "gen" and tier == "quick" and ending == "prune_list":
                    continue
                shards.append({"fam": fam, "ending": ending, "lo": lo, "hi": hi})
    res = par.run_shards("harness.c11", "_shard", shards)
    for c in par.fold(rep, OB, res):
        rep.counterexample(OB, c, c["why"])


def replay(c: Dict[str, Any]) -> Dict[str, Any]:
    why = case(c["n"], c["ending"], c["fam"], c["redirect"], c["exiting"], c["entry"])
    return {"status": "reproduces" if why else "not-reproduced", "detail": why}


def classify(case_: Dict[str, Any], out: Dict[str, Any]) -> Optional[str]:
    return None
