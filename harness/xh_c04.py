"""CrossHair contract for C04's slice arithmetic (second engine, thorough tier only).

The same obligation as harness/c04.py obligation A, stated as a PEP-316 contract over the
real unwrap_stackslice body on the stub stack; CrossHair (z3) explores it independently of symx.
"""
from __future__ import annotations

import sys

sys.path.insert(0, "/verif")

from harness.c04 import build_model, expected_slice, run_real_slicer  # noqa: E402


def slice_matches(n: int, cut0: bool, cut1: bool, cut2: bool, outer: int, inner: int, has_limit: bool, limit: int) -> bool:
    """
    pre: 1 <= n <= 4
    pre: -1 <= outer < n
    pre: -1 <= inner < n
    pre: outer == -1 or inner == -1 or outer <= inner
    pre: limit >= 1
    post: _ == True
    """
    cuts = [cut0, cut1, cut2][: n - 1]
    L, glets = build_model(n, cuts)
    o = None if outer < 0 else outer
    i = None if inner < 0 else inner
    lim = limit if has_limit else None
    got, err = run_real_slicer(L, glets, [], L[o] if o is not None else None, L[i] if i is not None else None, lim)
    exp = expected_slice(L, o, i, lim)
    return err is None and [id(x) for x in got] == [id(x) for x in exp]


def slice_matches__reach(n: int, cut0: bool, outer: int, inner: int, has_limit: bool, limit: int) -> bool:
    """
    Reachability twin: must come back violated.
    pre: 1 <= n <= 3
    pre: -1 <= outer < n
    pre: -1 <= inner < n
    pre: outer == -1 or inner == -1 or outer <= inner
    pre: limit >= 1
    post: _ == False
    """
    return slice_matches(n, cut0, False, False, outer, inner, has_limit, limit)
