"""Shared driver for C18 / C19: Stack trees built from real frames, with symbolic flags, and a
reader for the documented tree format (written from the marker table in _types.py's docstrings
and the rendered examples in the README, not from the formatting code)."""
from __future__ import annotations

from typing import Any, Callable, Dict, List, Optional, Tuple

from stackscope import Context, Frame, Stack


# real suspended frames with real source lines (so that linetext is not empty)
def _fa():
    yield "a"  # line of fa


def _fb():
    x = 1  # noqa: F841
    yield "b"  # line of fb


class _K:
    def meth(self):
        yield "m"  # line of meth


def _fc():
    __tracebackhide__ = True  # noqa: F841
    yield "c"


GENS = [_fa(), _fb(), _K().meth(), _fc()]
for _g in GENS:
    next(_g)
PYFRAMES = [g.gi_frame for g in GENS]

# adversarial descriptions / varnames: they look like prefix markers
TEXTS = ["plain text", "─ dash", ". dot", "+ plus", "| bar", "  spaces", "├ tee", "╠ dbl", "└ end", "x" * 3]


class Obj:
    def __init__(self, name: str):
        self.name = name

    def __repr__(self) -> str:
        return f"<{self.name}>"


class FalsyObj(Obj):
    """A real object that is falsy (an empty collection-like awaitable, 0, ...): still a leaf."""

    def __len__(self) -> int:
        return 0


class Flags:
    """Supplies symbolic booleans / small choices in a fixed order (one engine variable each).
    rich=False (quick tier): per flagged context only hide / is_exiting / start_line presence are
    symbolic and the first `rich_budget` contexts additionally get is_async / obj presence."""

    def __init__(self, e: Any, concrete: Optional[Dict[str, Any]] = None, rich_budget: int = 0, frame_budget: int = 1,
                 ctx_budget: int = 2, text_budget: int = 1):
        self.e = e
        self.concrete = concrete
        self.n = 0
        self.used: Dict[str, Any] = {}
        self.rich_budget = rich_budget
        self.frame_budget = frame_budget
        self.ctx_budget = ctx_budget
        self.text_budget = text_budget

    def b(self, label: str) -> Any:
        self.n += 1
        name = f"f{self.n}_{label}"
        if self.concrete is not None:
            v = bool(self.concrete.get(name, False))
        else:
            v = self.e.bool(name)
        self.used[name] = v
        return v

    def c(self, label: str, n: int) -> int:
        self.n += 1
        name = f"c{self.n}_{label}"
        if self.concrete is not None:
            v = int(self.concrete.get(name, 0))
        else:
            v = self.e.choice(name, n)
        self.used[name] = v
        return v


def mk_frame(F: Flags, i: int, contexts: List[Context], flagged: bool = True) -> Frame:
    fr = Frame(pyframe=PYFRAMES[i % len(PYFRAMES)], contexts=contexts)
    if flagged and F.frame_budget > 0:
        F.frame_budget -= 1
        fr.hide = F.b("frame_hide")
        fr.hide_line = F.b("frame_hide_line")
    elif flagged:
        fr.hide = F.b("frame_hide")
    return fr


def mk_ctx(F: Flags, *, inner: Optional[Stack] = None, children: Any = (), flagged: bool = True, texts: bool = False) -> Context:
    c = Context(obj=Obj("mgr"), is_async=False, inner_stack=inner, children=list(children))
    if flagged and F.ctx_budget > 0:
        F.ctx_budget -= 1
        c.hide = F.b("ctx_hide")
        c.is_exiting = F.b("ctx_exiting")
        if bool(F.b("ctx_has_start_line")):
            c.start_line = 14
        if F.rich_budget > 0:
            F.rich_budget -= 1
            c.is_async = F.b("ctx_async")
            if not bool(F.b("ctx_has_obj")):
                c.obj = None
    if texts and F.text_budget <= 0:
        c.description = "fixed description"
    elif texts:
        F.text_budget -= 1
        k = F.c("description", len(TEXTS) + 1)
        c.description = None if k == len(TEXTS) else TEXTS[k]
        c.varname = [None, "v", "─ v", ". v"][k % 4]
    return c


def shapes() -> List[Callable[[Flags], Stack]]:
    S: List[Callable[[Flags], Stack]] = []

    def s0(F: Flags) -> Stack:
        return Stack(root=Obj("root"), frames=[mk_frame(F, 0, [mk_ctx(F, texts=True)]), mk_frame(F, 1, [])],
                     leaf=Obj("leaf") if bool(F.b("leaf")) else None)

    def s1(F: Flags) -> Stack:
        # (an inner stack may have a leaf / an error and NO frames: e.g. the object could not be unwrapped)
        inner = Stack(root=None, frames=[mk_frame(F, 2, [mk_ctx(F, flagged=False)])] if bool(F.b("inner_has_frames")) else [],
                      leaf=Obj("ileaf") if bool(F.b("inner_leaf")) else None,
                      error=ValueError("inner boom") if bool(F.b("inner_error")) else None)
        return Stack(root=Obj("root"), frames=[mk_frame(F, 0, [mk_ctx(F, inner=inner), mk_ctx(F, flagged=False, texts=True)])])

    def s2(F: Flags) -> Stack:
        ch = [mk_ctx(F, texts=True), mk_ctx(F, flagged=False, children=[mk_ctx(F, flagged=False, texts=True)])]
        return Stack(root=None, frames=[mk_frame(F, 1, [mk_ctx(F, children=ch)], flagged=False), mk_frame(F, 3, [])],
                     error=KeyError("outer") if bool(F.b("error")) else None)

    def s3(F: Flags) -> Stack:
        populated = Stack(root=Obj("task1"), frames=[mk_frame(F, 2, [mk_ctx(F, flagged=False)], flagged=False)])
        stub = Stack(root=Obj("task2"), frames=[])
        noroot = Stack(root=None, frames=[mk_frame(F, 0, [], flagged=False)] if bool(F.b("noroot_has_frames")) else [])
        kids: List[Any] = [populated, stub, mk_ctx(F, flagged=False, texts=True), noroot]
        order = F.c("child_order", 3)
        kids = [kids, kids[::-1], [kids[1], kids[0], kids[3], kids[2]]][order]
        return Stack(root=Obj("root"), frames=[mk_frame(F, 1, [mk_ctx(F, children=kids)])],
                     leaf=Obj("leaf") if bool(F.b("leaf")) else None)

    def s4(F: Flags) -> Stack:
        inner2 = Stack(root=None, frames=[mk_frame(F, 3, [mk_ctx(F, flagged=False, texts=True)], flagged=False)],
                       error=RuntimeError("deep\nmultiline") if bool(F.b("deep_error")) else None)
        inner1 = Stack(root=None, frames=[mk_frame(F, 2, [mk_ctx(F, inner=inner2)])])
        task = Stack(root=Obj("task"), frames=[mk_frame(F, 0, [mk_ctx(F, flagged=False, inner=inner1)], flagged=False)],
                     leaf=Obj("tleaf"))
        return Stack(root=Obj("root"), frames=[mk_frame(F, 1, [mk_ctx(F, flagged=False, children=[task, mk_ctx(F, texts=True)])])])

    def s5(F: Flags) -> Stack:
        return Stack(root=Obj("root"), frames=[mk_frame(F, 0, [mk_ctx(F), mk_ctx(F)]), mk_frame(F, 2, [mk_ctx(F, texts=True)])],
                     leaf=FalsyObj("leaf") if bool(F.b("leaf")) else None, error=ValueError("e") if bool(F.b("error")) else None)

    def s6(F: Flags) -> Stack:
        return Stack(root=None if bool(F.b("no_root")) else Obj("r"), frames=[], leaf=FalsyObj("only leaf") if bool(F.b("leaf")) else None,
                     error=ValueError("e") if bool(F.b("error")) else None)

    def s7(F: Flags) -> Stack:
        # a context with BOTH an inner stack and children; a NON-last child that has children of its own (the
        # continuation bar of the parent must run through every line of that child's subtree)
        inner = Stack(root=None, frames=[mk_frame(F, 2, [mk_ctx(F, flagged=False, texts=True)], flagged=False)],
                      leaf=Obj("ileaf") if bool(F.b("inner_leaf")) else None)
        grand = [mk_ctx(F, flagged=False), Stack(root=Obj("gtask"), frames=[mk_frame(F, 3, [], flagged=False)])]
        kids: List[Any] = [mk_ctx(F, children=grand), Stack(root=Obj("task"), frames=[mk_frame(F, 0, [mk_ctx(F, flagged=False)])]),
                           mk_ctx(F, flagged=False, texts=True)]
        if bool(F.b("kids_reversed")):
            kids = kids[::-1]
        return Stack(root=Obj("root"), frames=[mk_frame(F, 1, [mk_ctx(F, inner=inner, children=kids)], flagged=False), mk_frame(F, 3, [])],
                     leaf=Obj("leaf") if bool(F.b("leaf")) else None)

    S.extend([s0, s1, s2, s3, s4, s5, s6, s7])
    return S


# ---------------------------------------------------------------- expected structure
def expected_stack(st: Stack, show_contexts: bool, show_hidden: bool) -> Dict[str, Any]:
    frames = []
    for f in st.frames:
        if bool(f.hide) and not show_hidden:
            continue
        frames.append(expected_frame(f, show_contexts, show_hidden))
    return {"frames": frames, "leaf": st.leaf is not None, "error": st.error is not None}


def expected_frame(f: Frame, show_contexts: bool, show_hidden: bool) -> Dict[str, Any]:
    ctxs = []
    if show_contexts:
        for c in f.contexts:
            n = expected_ctx(c, show_hidden)
            if n is not None:
                ctxs.append(n)
    code = not (f.contexts and bool(f.contexts[-1].is_exiting)) and bool(f.linetext)
    return {"contexts": ctxs, "code": code}


def expected_ctx(c: Context, show_hidden: bool) -> Optional[Dict[str, Any]]:
    if bool(c.hide) and not show_hidden:
        return None
    inner = expected_stack(c.inner_stack, True, show_hidden) if c.inner_stack is not None else None
    kids: List[Any] = []
    for ch in c.children:
        if isinstance(ch, Context):
            n = expected_ctx(ch, show_hidden)
            if n is not None:
                kids.append(n)
        else:
            # a child task stack reads back as a node with that stack inside and no children of its own
            kids.append({"inner": norm_inner(expected_stack(ch, True, show_hidden)), "children": []})
    return {"inner": norm_inner(inner), "children": kids}


def norm_inner(s: Optional[Dict[str, Any]]) -> Optional[Dict[str, Any]]:
    """A frameless, leafless, errorless stack prints nothing: same as no stack at all."""
    if s is None or (not s["frames"] and not s["leaf"] and not s["error"]):
        return None
    return s


# ------------------------------------------------------------------------ reader
class ParseError(Exception):
    pass


def read_stack(lines: List[str], has_header: bool = True) -> Dict[str, Any]:
    """Reads the Unicode rendering of one Stack (lines without trailing newline)."""
    i = 0
    if has_header:
        if not lines or not lines[0].startswith("stackscope.Stack"):
            raise ParseError(f"missing header: {lines[:1]}")
        i = 1
    frames: List[Dict[str, Any]] = []
    leaf = False
    error = False
    cur: Optional[List[str]] = None
    while i < len(lines):
        ln = lines[i]
        if error:
            if not ln.startswith("  "):
                raise ParseError(f"line after error block not indented: {ln!r}")
        elif ln.startswith("╠ "):
            if leaf:
                raise ParseError("frame after leaf")
            cur = [ln[2:]]
            frames.append({"_lines": cur})
        elif ln.startswith("║ "):
            if cur is None or leaf:
                raise ParseError(f"continuation without a frame: {ln!r}")
            cur.append(ln[2:])
        elif ln.startswith("╚ "):
            if leaf:
                raise ParseError("two leaves")
            leaf = True
        elif ln.startswith("  Error while extracting stack:"):
            error = True
        elif ln.strip() == "":
            pass
        else:
            raise ParseError(f"unrecognised line in stack: {ln!r}")
        i += 1
    return {"frames": [read_frame(f["_lines"]) for f in frames], "leaf": leaf, "error": error}


def read_frame(lines: List[str]) -> Dict[str, Any]:
    if " in " not in lines[0] or " at " not in lines[0]:
        raise ParseError(f"bad frame header {lines[0]!r}")
    ctxs: List[List[str]] = []
    code = False
    for ln in lines[1:]:
        if code:
            raise ParseError("line after the code line")
        if ln.startswith("├─"):
            if not ctxs:
                raise ParseError("child context without a context")
            if not ln[2:].startswith("─ "):
                # the branch marker announces a DIRECT child of the frame-level context; deeper levels continue with │
                raise ParseError(f"branch marker not followed by the child marker: {ln!r}")
            ctxs[-1].append(ln[2:])
        elif ln.startswith("├ "):
            ctxs.append([ln[2:]])
        elif ln.startswith("│ "):
            if not ctxs:
                raise ParseError("context continuation without a context")
            if ln[2:].startswith("─ "):
                raise ParseError(f"a child context starts on a continuation line (expected the ├─ marker): {ln!r}")
            ctxs[-1].append(ln[2:])
        elif ln.startswith("└ "):
            code = True
        else:
            raise ParseError(f"unrecognised line in frame: {ln!r}")
    return {"contexts": [read_ctx(c) for c in ctxs], "code": code}


def read_ctx(lines: List[str]) -> Dict[str, Any]:
    """lines[0] is the context's own line; the rest is its inner stack, then its children."""
    rest = lines[1:]
    inner_lines: List[str] = []
    j = 0
    while j < len(rest) and not rest[j].startswith("─ "):
        inner_lines.append(rest[j])
        j += 1
    kids_raw: List[List[str]] = []
    while j < len(rest):
        ln = rest[j]
        if ln.startswith("─ "):
            kids_raw.append([ln[2:]])
        elif ln.startswith("  "):
            if not kids_raw:
                raise ParseError("child continuation before any child")
            kids_raw[-1].append(ln[2:])
        else:
            raise ParseError(f"unrecognised line among children: {ln!r}")
        j += 1
    # blank separator lines around child task stacks carry no structure
    inner_lines = [x for x in inner_lines if x.strip() != ""]
    inner = read_stack(inner_lines, has_header=False) if inner_lines else None
    kids = [read_ctx(k) for k in kids_raw]
    return {"inner": norm_inner(inner), "children": kids}


MARKER_MAP = {"╠ ": "+ ", "║ ": "| ", "╚ ": "+ ", "├ ": ". ", "│ ": "  ", "├─": "  ", "─ ": ". ", "└ ": "` ", "  ": "  "}


def ascii_matches(u: str, a: str) -> bool:
    """Is `a` the line `u` with each prefix marker replaced by its fixed ASCII counterpart?
    (there must be a split point p: u[:p] is a run of markers, a[:p] their images, rest equal)"""
    p = 0
    while True:
        if u[p:] == a[p:] and a[:p].isascii():
            return True
        m = u[p:p + 2]
        if len(m) < 2 or m not in MARKER_MAP or a[p:p + 2] != MARKER_MAP[m]:
            return False
        p += 2
