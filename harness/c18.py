"""C18 -- tree formatting is well-formed; reading it back recovers the Stack's structure.

Engine: symx.  Real code: Formattable.format / __str__, Stack._format, Frame._format, Context._format.
Symbolic: every flag of every node (hide on frames and contexts, hide_line, is_exiting, is_async,
presence of obj / start_line / leaf / error) and the three format options are z3 Bools that FLOW
INTO the real code's own `if` tests; descriptions / varnames from a finite adversarial alphabet
of marker look-alikes; tree shape from a table.
Oracle: a reader written from the documented marker grammar (harness/fmtdrv.py).
"""
from __future__ import annotations

from typing import Any, Dict, List, Optional

from vlib import par
from vlib.symx import Engine

from harness import fmtdrv as F

OB = "C18.format well-formed and readable back"
FUNCTIONS = ["stackscope._types.Formattable.format / __str__", "stackscope._types.Stack._format / _format_header / _format_error",
             "stackscope._types.Frame._format", "stackscope._types.Context._format"]


def check(st: Any, ascii_only: Any, show_contexts: Any, show_hidden: Any) -> Optional[str]:
    try:
        uni = st.format(ascii_only=False, show_contexts=show_contexts, show_hidden_frames=show_hidden)
        asc = st.format(ascii_only=ascii_only, show_contexts=show_contexts, show_hidden_frames=show_hidden)
    except Exception as ex:
        return f"format raised {ex!r}"
    sc, sh, ao = bool(show_contexts), bool(show_hidden), bool(ascii_only)
    for lines in (uni, asc):
        for ln in lines:
            if not isinstance(ln, str) or not ln.endswith("\n") or "\n" in ln[:-1]:
                return f"line not a single newline-terminated line: {ln!r}"
    if sc and not sh:
        if str(st) != "".join(uni):
            return "str(x) is not the concatenation of format()"
    try:
        got = F.read_stack([l[:-1] for l in uni])
    except F.ParseError as ex:
        return f"output cannot be read back: {ex}"
    exp = F.expected_stack(st, sc, sh)
    if got != exp:
        return f"structure read back {got} != structure of the object {exp}"
    if ao:
        if len(asc) != len(uni):
            return "ascii_only changes the number of lines"
        for u, a in zip(uni, asc):
            if not F.ascii_matches(u, a):
                return f"ascii line {a!r} is not the marker substitution of {u!r}"
    elif asc != uni:
        return "format is not deterministic"
    if not sc:
        # exactly the frame series: header, per visible frame one header line (+ code line), leaf, error
        n = 1
        for f in st.frames:
            if bool(f.hide) and not sh:
                continue
            n += 1
            if not (f.contexts and bool(f.contexts[-1].is_exiting)) and f.linetext:
                n += 1
        n += 1 if st.leaf is not None else 0
        body = [l for l in uni if not l.startswith("  ")]
        if len(body) != n:
            return f"show_contexts=False printed {len(body)} non-error lines, expected {n}"
    return None


def _shard(sh: Dict[str, Any]) -> Dict[str, Any]:
    cex: List[Dict[str, Any]] = []
    samples: List[Any] = []
    si = sh["shape"]
    shape = F.shapes()[si]

    def harness(e: Engine) -> None:
        FL = F.Flags(e, rich_budget=sh["rich"], frame_budget=sh["frames"], ctx_budget=sh["ctxs"], text_budget=sh["texts"])
        st = shape(FL)
        ao, sc, shd = e.bool("opt_ascii_only"), e.bool("opt_show_contexts"), e.bool("opt_show_hidden_frames")
        if "opts" in sh:  # shard = one cell of the option cube (the options stay symbolic values)
            e.assume(ao == sh["opts"][0])
            e.assume(sc == sh["opts"][1])
            e.assume(shd == sh["opts"][2])
        why = check(st, ao, sc, shd)
        if len(samples) < 1:
            samples.append({"shape": si, "rendering": "".join(st.format())[:600]})
        if why and len(cex) < 3:
            m = e.model()
            cex.append({"shape": si, "rich": sh["rich"], "nframes": sh["frames"], "nctx": sh["ctxs"], "ntext": sh["texts"], "flags": {k: m.get(k) for k in list(FL.used) + ["opt_ascii_only", "opt_show_contexts", "opt_show_hidden_frames"]}, "why": why})

    eng = Engine(max_seconds=sh.get("budget", 600), max_paths=3_000_000)
    eng.explore(harness)
    return par.shard_result(eng, shard=f"shape{si}", cex=cex, samples=samples)


def run(rep: Any, tier: str, seed: int) -> None:
    import z3

    rep.engine_name = f"symx (z3 {z3.get_version_string()})"
    rep.functions = FUNCTIONS
    rep.bounds = {"shapes": len(F.shapes()), "depth": "frames > contexts > inner stacks / child contexts / child task stacks, up to 3 levels of stacks",
                  "flags": "every hide / hide_line / is_exiting / is_async / presence flag of the flagged nodes and the 3 options as z3 Bools",
                  "texts": F.TEXTS}
    rep.outside = ["strings containing newlines in descriptions", "trees beyond the shape table", "symbolic strings"]
    rich, nfr, nctx, ntext = (0, 1, 2, 1) if tier == "quick" else (1, 2, 2, 1)
    res = par.run_shards("harness.c18", "_shard", [{"shape": i, "rich": rich, "frames": nfr, "ctxs": nctx, "texts": ntext, "budget": 600 if tier == "quick" else 1500,
                                                    "opts": [a, b, c]}
                                                   for i in range(len(F.shapes())) for a in (False, True) for b in (False, True) for c in (False, True)])
    for c in par.fold(rep, OB, res):
        rep.counterexample(OB, c, c["why"])


def replay(c: Dict[str, Any]) -> Dict[str, Any]:
    fl = c["flags"]
    FL = F.Flags(None, concrete=fl, rich_budget=c.get("rich", 0), frame_budget=c.get("nframes", 1), ctx_budget=c.get("nctx", 2), text_budget=c.get("ntext", 1))
    st = F.shapes()[c["shape"]](FL)
    why = check(st, bool(fl.get("opt_ascii_only")), bool(fl.get("opt_show_contexts")), bool(fl.get("opt_show_hidden_frames")))
    return {"status": "reproduces" if why else "not-reproduced", "detail": why}


def classify(c: Dict[str, Any], out: Dict[str, Any]) -> Optional[str]:
    return None
