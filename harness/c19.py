"""C19 -- standard-library summaries and flat format faithfully project the Stack.

Engine: symx.  Real code: Stack.as_stdlib_summary / _frame_summaries, Frame.as_stdlib_summary(_with_contexts),
Context._frame_summaries, Stack.format_flat.  Symbolic: the node flags of the C18 trees and the options
show_contexts / show_hidden_frames / capture_locals as z3 Bools flowing into the real `if` tests.
Oracle: a reference projection written from the docstrings.
"""
from __future__ import annotations

import gc
import pickle
import traceback
import types
from typing import Any, Dict, List, Optional, Tuple

from stackscope import Context, Frame, Stack
from vlib import par
from vlib.symx import Engine

from harness import fmtdrv as F

OB = "C19.summaries and flat format == reference projection"
FUNCTIONS = ["stackscope._types.Stack.as_stdlib_summary / _frame_summaries", "stackscope._types.Frame.as_stdlib_summary",
             "stackscope._types.Frame.as_stdlib_summary_with_contexts", "stackscope._types.Context._frame_summaries",
             "stackscope._types.Stack.format_flat"]

Entry = Tuple[str, int, str, Optional[Dict[str, str]]]


def ref_frame_entry(f: Frame, cl: bool) -> Entry:
    loc = {k: repr(v) for k, v in f.pyframe.f_locals.items()} if cl else None
    return (f.pyframe.f_code.co_filename, f.lineno, f.pyframe.f_code.co_name, loc)


def ref_ctx(c: Context, parent: Frame, sh: bool, cl: bool, out: List[Entry]) -> None:
    if bool(c.hide) and not sh:
        return
    if c.obj is not None:
        info = f"{c.varname or '_'}: {type(c.obj).__name__}"
    elif c.varname is not None:
        info = c.varname
    else:
        info = ""
    name = parent.pyframe.f_code.co_name + (f" ({info})" if info else "")
    loc = {"<context manager>": c.description or repr(c.obj)} if cl else None
    out.append((parent.pyframe.f_code.co_filename, c.start_line or parent.lineno, name, loc))
    if c.inner_stack is not None:
        ref_stack(c.inner_stack, True, sh, cl, out)
    for ch in c.children:
        if isinstance(ch, Context):
            ref_ctx(ch, parent, sh, cl, out)


def ref_stack(st: Stack, sc: bool, sh: bool, cl: bool, out: List[Entry]) -> None:
    for f in st.frames:
        if bool(f.hide) and not sh:
            continue
        if sc:
            for c in f.contexts:
                ref_ctx(c, f, sh, cl, out)
            if not (f.contexts and bool(f.contexts[-1].is_exiting)):
                out.append(ref_frame_entry(f, cl))
        else:
            out.append(ref_frame_entry(f, cl))


def holds_frame(obj: Any) -> bool:
    seen = set()
    todo = [obj]
    n = 0
    while todo and n < 20000:
        x = todo.pop()
        if id(x) in seen:
            continue
        seen.add(id(x))
        n += 1
        if isinstance(x, (types.FrameType, types.GeneratorType, Frame)):
            return True
        if isinstance(x, (str, int, type(None), type, types.ModuleType, types.FunctionType)):
            continue
        todo.extend(gc.get_referents(x))
    return False


def check(st: Stack, sc: Any, sh: Any, cl: Any) -> Optional[str]:
    try:
        summ = st.as_stdlib_summary(show_contexts=sc, show_hidden_frames=sh, capture_locals=cl)
    except Exception as ex:
        return f"as_stdlib_summary raised {ex!r}"
    bsc, bsh, bcl = bool(sc), bool(sh), bool(cl)
    if not isinstance(summ, traceback.StackSummary):
        return "not a StackSummary"
    exp: List[Entry] = []
    ref_stack(st, bsc, bsh, bcl, exp)
    # locals: the property fixes filename / line / name; of the locals only their presence and names are
    # compared (the standard library applies repr() once more to whatever it is given)
    got = [(fs.filename, fs.lineno, fs.name, None if fs.locals is None else sorted(fs.locals)) for fs in summ]
    exp = [(a, b, c, None if not d else sorted(d)) for a, b, c, d in exp]  # (an empty dict is stored as None)
    if got != exp:
        for i, (a, b) in enumerate(zip(got + [None] * len(exp), exp + [None] * len(got))):
            if a != b:
                return f"summary entry {i}: got {a}, expected {b} (lengths {len(got)}/{len(exp)})"
    try:
        back = pickle.loads(pickle.dumps(summ))
    except Exception as ex:
        return f"summary cannot be pickled: {ex!r}"
    if [(fs.filename, fs.lineno, fs.name, fs.locals, fs.line) for fs in back] != [(fs.filename, fs.lineno, fs.name, fs.locals, fs.line) for fs in summ]:
        return "pickle round trip changes the summary"
    if holds_frame(summ):
        return "the summary holds a frame"
    # flat format
    try:
        flat = st.format_flat(show_contexts=sc)
    except Exception as ex:
        return f"format_flat raised {ex!r}"
    header = (f"stackscope.Stack of {st.root!r} (most recent call last):\n" if st.root is not None
              else "stackscope.Stack (most recent call last):\n")
    want = [header]
    if st.frames:
        want.extend(st.as_stdlib_summary(show_contexts=bsc).format())
    if st.leaf is not None:
        want.append(f"  Target of innermost frame: {st.leaf!r}\n")
    body = flat[:len(want)]
    if body != want:
        return f"format_flat body {body} != header + StackSummary.format() + leaf"
    rest = flat[len(want):]
    if st.error is None:
        if rest:
            return f"format_flat has trailing lines without an error: {rest}"
    else:
        if not rest or rest[0] != "  Error while extracting stack:\n" or any(not l.startswith("  ") or not l.endswith("\n") for l in rest):
            return f"error lines malformed: {rest[:3]}"
        if not any(type(st.error).__name__ in l for l in rest):
            return "error lines do not name the exception"
    return None


def _shard(sh_: Dict[str, Any]) -> Dict[str, Any]:
    cex: List[Dict[str, Any]] = []
    samples: List[Any] = []
    si = sh_["shape"]
    shape = F.shapes()[si]

    def harness(e: Engine) -> None:
        FL = F.Flags(e, rich_budget=sh_["rich"], frame_budget=sh_["frames"], ctx_budget=sh_["ctxs"], text_budget=sh_["texts"])
        st = shape(FL)
        sc, sh, cl = e.bool("opt_show_contexts"), e.bool("opt_show_hidden_frames"), e.bool("opt_capture_locals")
        e.assume(sc == sh_["opts"][0])
        e.assume(sh == sh_["opts"][1])
        e.assume(cl == sh_["opts"][2])
        why = check(st, sc, sh, cl)
        if len(samples) < 1:
            samples.append({"shape": si, "summary": [(fs.lineno, fs.name) for fs in st.as_stdlib_summary(show_contexts=True)][:8]})
        if why and len(cex) < 3:
            m = e.model()
            cex.append({"shape": si, "budgets": [sh_["rich"], sh_["frames"], sh_["ctxs"], sh_["texts"]],
                        "flags": {k: m.get(k) for k in list(FL.used) + ["opt_show_contexts", "opt_show_hidden_frames", "opt_capture_locals"]}, "why": why})

    eng = Engine(max_seconds=sh_.get("budget", 600), max_paths=3_000_000)
    eng.explore(harness)
    return par.shard_result(eng, shard=f"shape{si}/{sh_['opts']}", cex=cex, samples=samples)


def run(rep: Any, tier: str, seed: int) -> None:
    import z3

    rep.engine_name = f"symx (z3 {z3.get_version_string()})"
    rep.functions = FUNCTIONS
    rep.bounds = {"trees": "the C18 shape table with symbolic node flags", "options": "show_contexts x show_hidden_frames x capture_locals (z3 Bools)"}
    rep.outside = ["start_line == 0 (falsy, falls back to the frame's line; not a valid line)", "symbolic line numbers (the standard library looks lines up eagerly)",
                   "trees beyond the shape table"]
    rich, nfr, nctx, ntext = (0, 1, 2, 1) if tier == "quick" else (1, 2, 2, 1)
    shards = [{"shape": i, "rich": rich, "frames": nfr, "ctxs": nctx, "texts": ntext, "opts": [a, b, c], "budget": 600 if tier == "quick" else 1500}
              for i in range(len(F.shapes())) for a in (False, True) for b in (False, True) for c in (False, True)]
    res = par.run_shards("harness.c19", "_shard", shards)
    for c in par.fold(rep, OB, res):
        rep.counterexample(OB, c, c["why"])


def replay(c: Dict[str, Any]) -> Dict[str, Any]:
    fl = c["flags"]
    b = c["budgets"]
    FL = F.Flags(None, concrete=fl, rich_budget=b[0], frame_budget=b[1], ctx_budget=b[2], text_budget=b[3])
    st = F.shapes()[c["shape"]](FL)
    why = check(st, bool(fl.get("opt_show_contexts")), bool(fl.get("opt_show_hidden_frames")), bool(fl.get("opt_capture_locals")))
    return {"status": "reproduces" if why else "not-reproduced", "detail": why}


def classify(c: Dict[str, Any], out: Dict[str, Any]) -> Optional[str]:
    return None
