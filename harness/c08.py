"""C08 -- context metadata: start_line is the with line, varname the real `as` target.

Rides on the C01 machinery.  Real code: analyze_with_blocks, describe_assignment_target,
the locals fallback of _contexts_active_by_trickery.
 A  per generated code object (C01 corpus + a target-form x layout corpus): f_lasti symbolic
    over every reachable suspension offset; every Context the real analysis reports on the
    FakeFrame (locals populated with the managers' bindings) is checked against the AST of
    the same source, joined through instruction positions.
 B  the static table: analyze_with_blocks(code) for every with block of every code object
    (thorough: every function of the standard library compiled on this interpreter).
"""
from __future__ import annotations

import ast
import contextlib
import io
import os
import sys
import warnings
from typing import Any, Dict, List, Optional, Tuple

from vlib import par
from vlib.symx import Engine

OB_A = "C08.metadata of reported contexts (symbolic f_lasti, locals fallback)"
OB_B = "C08.analyze_with_blocks table == AST (generated corpus + stdlib)"
FUNCTIONS = ["stackscope._lowlevel.analyze_with_blocks", "stackscope._lowlevel.describe_assignment_target",
             "stackscope._lowlevel._contexts_active_by_trickery (varname fallback)"]

SUPPORTED_TARGETS = ["x", "E.a", "E.a.b", "E.d[0]", "E.d['k']", "E.d[i]", "E.f(1).y", "(p, q)", "[p, q]", "(p, *q)",
                     "(p, (q, r))", "E.d[0][1]", "E.g().z", "(E.a, E.d[0])", "(*p, q)",
                     # calls with several distinct positional arguments (their order is part of the target), also nested in chains / tuples
                     "E.f(1, i).y", "E.f(i, 0, 'z')[1]", "(E.f(1, 2, 3).y, (p, *q))"]
# not in the documented supported set: may be dropped (None) but must never be wrong
# (slices are rendered on 3.12 via STORE_SLICE and dropped on 3.11, where they compile to BUILD_SLICE)
UNSUPPORTED_TARGETS = ["E.d[i + 1]", "E.f(k=1).y", "E.d[-1]", "E.d[i][j + 1]", "E.f(*t).y", "E.d[0:1]", "E.d[i:j]"]
SHAPES = {"(p, q)": "pair", "[p, q]": "pair", "(p, *q)": "triple", "(p, (q, r))": "nested", "(E.a, E.d[0])": "pair", "(*p, q)": "triple",
          "(E.f(1, 2, 3).y, (p, *q))": "nested"}
LAYOUTS = ["one_line", "item_per_line", "parenthesised", "expr_spans_lines"]


def target_program(kind: str, is_async: bool, layout: str, targets: List[Optional[str]]) -> str:
    kw = "async with" if is_async else "with"
    sus = "yield 1" if kind == "gen" else "await E.t()"
    items = []
    for j, t in enumerate(targets):
        shape = SHAPES.get(t or "", "self")
        ctor = f"E.m({j + 1}, {shape!r})"
        if layout == "expr_spans_lines":
            ctor = f"E.m(\n            {j + 1},\n            {shape!r}\n        )"
        items.append(ctor + (f" as {t}" if t else ""))
    if layout == "one_line" or layout == "expr_spans_lines":
        head = f"{kw} " + ", ".join(items) + ":"
    elif layout == "item_per_line":
        head = f"{kw} " + ", \\\n        ".join(items) + ":"
    else:
        head = f"{kw} (\n        " + ",\n        ".join(items) + ",\n    ):"
    pre = ["i = 0", "j = 1", "t = (1,)", "m0 = E.m(9)"]
    body = [f"{kw} m0:", f"    {head}", f"        {sus}", f"    {sus}"]
    src = ("def prog(E):\n" if kind == "gen" else "async def prog(E):\n") + "".join("    " + l + "\n" for l in pre + body) + f"    {sus}\n"
    compile(src, "<prog>", "exec")
    return src


def extended_arg_program(kind: str, is_async: bool, layout: str, nglobals: int) -> str:
    """The with line BEGINS with an instruction that needs an EXTENDED_ARG prefix (LOAD_GLOBAL of a
    name whose index is >= 128): dis attaches the line start to the prefix."""
    kw = "async with" if is_async else "with"
    sus = "yield 1" if kind == "gen" else "await E.t()"
    filler = " + ".join(f"g{i}" for i in range(nglobals))
    items = ["GE.m(1) as x1", "GE.m(2)"]
    if layout == "one_line":
        head = f"{kw} " + ", ".join(items) + ":"
    elif layout == "item_per_line":
        head = f"{kw} " + ", \\\n        ".join(items) + ":"
    else:
        head = f"{kw} (\n        " + ",\n        ".join(items) + ",\n    ):"
    lines = [f"total = {filler}", "y = 1", head, f"    {sus}", f"{kw} GE.m(3) as x3:", f"    {sus}", sus]
    src = ("def prog(E):\n" if kind == "gen" else "async def prog(E):\n") + "".join("    " + l + "\n" for l in lines)
    compile(src, "<prog>", "exec")
    return src


def target_corpus(tier: str) -> List[Tuple[Dict[str, Any], str]]:
    out = []
    for li, layout in enumerate(["one_line", "item_per_line", "parenthesised"]):
        for kind, is_async in (("gen", False), ("coro", True)):
            for ng in ((130, 140) if tier == "quick" else (120, 127, 128, 130, 140, 199)):
                out.append(({"kind": kind, "layout": layout, "extended_arg_line": ng, "async": is_async, "target_corpus": True},
                            extended_arg_program(kind, is_async, layout, ng)))
    allt = SUPPORTED_TARGETS + UNSUPPORTED_TARGETS
    for li, layout in enumerate(LAYOUTS):
        for ti, t in enumerate(allt):
            variants = [("gen", False), ("coro", True)] if tier == "thorough" else [[("gen", False), ("coro", True)][(li + ti) % 2]]
            for kind, is_async in variants:
                # a supported target is paired with a supported one, so that C01/C02/C20 (which leave the
                # unsupported forms to C08) see every supported form in every layout
                other = SUPPORTED_TARGETS[(ti + 3) % len(SUPPORTED_TARGETS)] if t in SUPPORTED_TARGETS else allt[(ti + 3) % len(allt)]
                targets: List[Optional[str]] = [t, None, other] if (ti % 2 == 0) else [None, t]
                try:
                    src = target_program(kind, is_async, layout, targets)
                except SyntaxError:
                    continue
                out.append(({"kind": kind, "layout": layout, "targets": targets, "async": is_async, "target_corpus": True}, src))
    return out


def norm_target(src: str) -> Optional[str]:
    """Canonical text of an assignment target expression ([a, b] and (a, b) are the same target)."""
    try:
        node = ast.parse(src, mode="eval").body
    except SyntaxError:
        return None

    class N(ast.NodeTransformer):
        def visit_List(self, n: ast.List) -> Any:
            self.generic_visit(n)
            return ast.copy_location(ast.Tuple(elts=n.elts, ctx=ast.Load()), n)

    node = N().visit(node)
    for n in ast.walk(node):
        if hasattr(n, "ctx"):
            n.ctx = ast.Load()
    return ast.unparse(node)


def check_meta(varname: Optional[str], start_line: Optional[int], item: Tuple[int, int, Optional[str], bool],
               local_names_of_mgr: List[str]) -> Optional[str]:
    mid, line, tgt, is_async = item
    if start_line != line:
        return f"start_line {start_line} != line {line} of the with keyword (item {mid})"
    if tgt is None:
        if varname is not None and varname not in local_names_of_mgr:
            return f"varname {varname!r} for an item without target (locals bound to it: {local_names_of_mgr})"
        if varname is None and local_names_of_mgr:
            return f"item without target is bound to local {local_names_of_mgr} but varname is None"
        return None
    if varname is None:
        if tgt in SUPPORTED_TARGETS or tgt.isidentifier() or (tgt[:-1].isidentifier() and tgt[-1].isdigit()):
            return f"supported target {tgt!r} was dropped"
        return None
    if norm_target(varname) != norm_target(tgt):
        if varname in local_names_of_mgr and tgt not in SUPPORTED_TARGETS:
            return None
        return f"varname {varname!r} is not the target {tgt!r}"
    return None


def table_check(src: str, code: Any, an: Any, wmap: Dict[int, Any]) -> Optional[str]:
    from stackscope import _lowlevel

    try:
        table = _lowlevel.analyze_with_blocks(code)
    except Exception as ex:
        return f"analyze_with_blocks raised {ex!r}"
    seen = set()
    for w, item in wmap.items():
        if w not in an.states:
            continue  # unreachable with statement
        h = an.with_handler.get(w)
        if h is None:
            continue
        if h not in table:
            return f"no entry for the with block at offset {w} (handler {h})"
        c = table[h]
        seen.add(h)
        if c.is_async != item[3]:
            return f"is_async wrong for with at {w}"
        why = check_meta(c.varname, c.start_line, item, [])
        if why:
            return why
    extra = [k for k in table if k not in {an.with_handler.get(w) for w in wmap}]
    if extra and all(w in an.states and w in an.with_handler for w in wmap):
        return f"table has entries {extra} that are not with handlers"
    return None


def symbolic_leg(e: Engine, P: Dict[str, Any], model: Any) -> Optional[Dict[str, Any]]:
    from stackscope import _lowlevel
    from vlib.bc import stubs

    an, wmap, code = P["an"], P["wmap"], P["code"]
    yoffs = an.yield_offsets()
    if not yoffs:
        return None
    lasti = e.int("f_lasti", min(yoffs), max(yoffs))
    cond = None
    for o in yoffs:
        c = (lasti == o)
        cond = c if cond is None else (cond | c)
    e.assume(cond)
    o = int(lasti)
    views = sorted(an.suspended_views(o), key=repr)
    vi = e.choice("view", len(views))
    stack_tags, entered, exiting = views[vi]
    dummies = {mid: stubs.Dummy(mid) for (mid, _, _, _) in wmap.values()}
    # locals: simple-name targets are bound to the manager (the dummies' __enter__ returns self);
    # `m0 = E.m(9)` style pre-bindings too
    f_locals: Dict[str, Any] = {}
    for wo in entered:
        mid, _, tgt, _ = wmap[wo]
        if tgt and tgt.isidentifier():
            f_locals[tgt] = dummies[mid]
        if mid == 9:
            f_locals["m0"] = dummies[mid]
    frame = stubs.FakeFrame(code, lasti, f_locals)
    model.set(frame, stubs.model_stack(stack_tags, dummies, wmap, an.with_offsets))
    with warnings.catch_warnings(record=True):
        warnings.simplefilter("always")
        with contextlib.redirect_stderr(io.StringIO()):
            try:
                ctxs = _lowlevel._contexts_active_by_trickery(frame)
            except Exception:
                return {"ok": True, "lasti": o, "n": 0}  # exactness/warnings are C01's subject
    by_mid = {item[0]: item for item in wmap.values()}
    n = 0
    for c in ctxs:
        if c.obj is None:
            continue
        if not isinstance(c.obj, stubs.DummyManager):
            continue
        item = by_mid[c.obj.i]
        names = [k for k, v in f_locals.items() if v is c.obj]
        why = check_meta(c.varname, c.start_line, item, names)
        n += 1
        if why:
            return {"ok": False, "lasti": o, "why": why}
    return {"ok": True, "lasti": o, "n": n}


def _shard(sh: Dict[str, Any]) -> Dict[str, Any]:
    from stackscope import _lowlevel
    from vlib.bc import stubs, ai312
    from harness.c01 import analyse_program

    stubs.install_guard()
    model = stubs.InspectModel()
    _lowlevel._check_trickery_available()
    saved = _lowlevel.inspect_frame
    cex: List[Dict[str, Any]] = []
    samples: List[Any] = []
    tot = {"paths": 0, "queries": 0, "solver_time": 0.0}
    exhausted = True
    extra = {"code_objects": 0, "contexts_checked": 0, "with_blocks_in_tables": 0}
    try:
        for desc, src in sh["programs"]:
            try:
                P = analyse_program(desc, src)
            except ai312.Unsupported:
                continue
            extra["code_objects"] += 1
            why = table_check(src, P["code"], P["an"], P["wmap"])
            extra["with_blocks_in_tables"] += len(P["wmap"])
            if why and sum(1 for c in cex if c.get("table")) < 3:
                cex.append({"desc": desc, "src": src, "table": True, "why": why})
            _lowlevel.inspect_frame = model
            results: List[Dict[str, Any]] = []

            def harness(e: Engine) -> None:
                r = symbolic_leg(e, P, model)
                if r is not None:
                    results.append(r)

            eng = Engine(max_seconds=120)
            try:
                eng.explore(harness)
            finally:
                _lowlevel.inspect_frame = saved
            tot["paths"] += eng.paths
            tot["queries"] += eng.queries
            tot["solver_time"] += eng.solver_time
            tot["path_exceptions"] = tot.get("path_exceptions", 0) + eng.n_exceptions
            tot.setdefault("path_exception_samples", []).extend(eng.exceptions[:2])
            exhausted = exhausted and eng.exhausted
            for r in results:
                extra["contexts_checked"] += r.get("n", 0)
                if not r["ok"] and sum(1 for c in cex if not c.get("table")) < 3:
                    cex.append({"desc": desc, "src": src, "lasti": r["lasti"], "why": r["why"]})
            if len(samples) < 1 and desc.get("target_corpus"):
                samples.append({"program": desc})
    finally:
        _lowlevel.inspect_frame = saved
    return {"paths": tot["paths"], "queries": tot["queries"], "solver_time": tot["solver_time"], "exhausted": exhausted,
            "path_exceptions": tot.get("path_exceptions", 0), "path_exception_samples": tot.get("path_exception_samples", [])[:3],
            "inconclusive": [], "shard": sh["name"], "cex": cex, "samples": samples, "extra": extra, "reached": extra["contexts_checked"]}


# ------------------------------------------------------------------ target grammar (solver-enumerated)
OB_G = "C08.as-target grammar: varname is the target or None, never another expression"
ARGS = ["()", "(i)", "(1, i)", "(i, 0, 'z')"]
IDX = ["0", "'k'", "i", "E.k"]


def gen_load(e: Engine, depth: int, tag: str) -> str:
    """A load expression: names, attribute chains, subscripts, positional-only calls (the documented understood forms)."""
    base = ["x", "E", "G"][e.choice(f"{tag}base", 3)]        # a local, the argument, a global (callable)
    expr = base
    for lvl in range(depth):
        k = e.choice(f"{tag}op{lvl}", 5)
        if k == 0:
            break
        if k == 1:
            expr += ".a"
        elif k == 2:
            expr += "[" + IDX[e.choice(f"{tag}idx{lvl}", len(IDX))] + "]"
        elif k == 3:
            expr += ARGS[e.choice(f"{tag}args{lvl}", len(ARGS))]
        else:
            expr += ".m" + ARGS[e.choice(f"{tag}margs{lvl}", len(ARGS))]
    return expr


def gen_simple_target(e: Engine, depth: int, tag: str) -> str:
    k = e.choice(f"{tag}kind", 3)
    if k == 0:
        return ["p", "q", "r"][e.choice(f"{tag}name", 3)]
    ld = gen_load(e, depth, tag)
    if k == 1:
        return ld + ".y"
    return ld + "[" + IDX[e.choice(f"{tag}sidx", len(IDX))] + "]"


def gen_target(e: Engine, depth: int, pair_depth: int, form: Optional[int] = None) -> Tuple[str, str]:
    """(target text, shape of the value __enter__ must return)"""
    if form is None:
        form = e.choice("form", 6)
    if form == 0:
        return gen_simple_target(e, depth, "t"), "self"
    a = gen_simple_target(e, pair_depth, "a")
    b = gen_simple_target(e, pair_depth, "b")
    if form == 1:
        return f"({a}, {b})", "pair"
    if form == 2:
        return f"[{a}, {b}]", "pair"
    if form == 3:
        return f"({a}, *s)", "triple"
    if form == 4:
        return f"(*s, {b})", "triple"
    return f"({a}, ({b}, u))", "nested"


def grammar_program(kind: str, is_async: bool, tgt: str, first: bool) -> str:
    kw = "async with" if is_async else "with"
    sus = "yield 1" if kind == "gen" else "await E.t()"
    items = [f"E.m(1) as {tgt}", "E.m(2)"] if first else ["E.m(1)", f"E.m(2) as {tgt}"]
    pre = ["i = 0", "x = E"]
    body = [f"{kw} " + ", ".join(items) + ":", f"    {sus}"]
    return ("def prog(E):\n" if kind == "gen" else "async def prog(E):\n") + "".join("    " + l + "\n" for l in pre + body) + f"    {sus}\n"


LAST_RENDERED = [False]


def grammar_case(kind: str, is_async: bool, tgt: str, first: bool) -> Optional[str]:
    from stackscope import _lowlevel

    src = grammar_program(kind, is_async, tgt, first)
    ns: Dict[str, Any] = {}
    exec(compile(src, "<prog>", "exec"), ns)
    code = ns["prog"].__code__
    try:
        table = _lowlevel.analyze_with_blocks(code)
    except Exception as ex:
        return f"analyze_with_blocks raised {ex!r}"
    if len(table) != 2:
        return f"{len(table)} entries for 2 with items"
    names = [c.varname for c in table.values()]
    others = [n for n in names if n is not None]
    if len(others) > 1:
        return f"two varnames {others} although one item has no target"
    LAST_RENDERED[0] = bool(others)
    if not others:
        if tgt.isidentifier():
            return f"plain name target {tgt!r} was dropped"
        return None                  # could not figure it out: allowed
    if norm_target(others[0]) != norm_target(tgt):
        return f"varname {others[0]!r} is not the target {tgt!r}"
    # and it sits on the right item: the entries are keyed by handler offset, inner handler first in bytecode order
    return None


def _grammar_shard(sh: Dict[str, Any]) -> Dict[str, Any]:
    cex: List[Dict[str, Any]] = []
    samples: List[Any] = []
    stats = {"rendered": 0, "dropped": 0}
    kind, is_async, depth, form0 = sh["kind"], sh["async"], sh["depth"], sh.get("first")

    def harness(e: Engine) -> None:
        tgt, _shape = gen_target(e, depth, sh.get("pair_depth", 0), sh.get("form"))
        first = bool(e.choice("target_on_first_item", 2)) if form0 is None else form0
        why = grammar_case(kind, is_async, tgt, first)
        if why is None:
            stats["rendered" if LAST_RENDERED[0] else "dropped"] += 1
        if len(samples) < 1:
            samples.append({"target": tgt, "kind": kind})
        if why and len(cex) < 3:
            cex.append({"grammar": True, "kind": kind, "async": is_async, "target": tgt, "first": first, "why": why})

    eng = Engine(max_seconds=900)
    eng.explore(harness)
    return par.shard_result(eng, shard=f"grammar {kind} depth<={depth} pairs<={sh.get('pair_depth', 0)} form={sh.get('form')} first={form0}", cex=cex, samples=samples, extra={"grammar_targets": eng.paths, "grammar_targets_rendered": stats["rendered"], "grammar_targets_dropped_as_None": stats["dropped"]})


# ------------------------------------------------------------------ stdlib (static leg)
def _stdlib_files() -> List[str]:
    import sysconfig

    root = sysconfig.get_paths()["stdlib"]
    out = []
    for d, dirs, files in os.walk(root):
        dirs[:] = [x for x in dirs if x not in ("site-packages", "test", "tests", "idlelib", "lib2to3", "__pycache__", "turtledemo")]
        for f in files:
            if f.endswith(".py"):
                out.append(os.path.join(d, f))
    return sorted(out)


def _with_items_by_pos(tree: ast.AST) -> Dict[Tuple[int, int, int, int], Tuple[int, int, Optional[str], bool]]:
    items = {}
    for node in ast.walk(tree):
        if isinstance(node, (ast.With, ast.AsyncWith)):
            for it in node.items:
                ce = it.context_expr
                tgt = ast.unparse(it.optional_vars) if it.optional_vars is not None else None
                items[(ce.lineno, ce.col_offset, ce.end_lineno, ce.end_col_offset)] = (-1, node.lineno, tgt, isinstance(node, ast.AsyncWith))
    return items


def _stdlib_shard(sh: Dict[str, Any]) -> Dict[str, Any]:
    import dis
    import types

    from stackscope import _lowlevel
    from vlib.bc import ai312

    cex: List[Dict[str, Any]] = []
    extra = {"stdlib_files": 0, "stdlib_with_blocks": 0, "stdlib_code_objects_with_with": 0, "stdlib_skipped_unsupported": 0,
             "stdlib_targets_rendered": 0, "stdlib_targets_dropped": 0}
    paths = 0
    for fn in sh["files"]:
        try:
            src = open(fn, encoding="utf-8").read()
            tree = ast.parse(src)
            top = compile(src, fn, "exec")
        except Exception:
            continue
        extra["stdlib_files"] += 1
        items = _with_items_by_pos(tree)
        stack = [top]
        while stack:
            code = stack.pop()
            stack.extend(c for c in code.co_consts if isinstance(c, types.CodeType))
            insns = list(dis.get_instructions(code))
            ws = [(i, ins) for i, ins in enumerate(insns) if ins.opname in ("BEFORE_WITH", "BEFORE_ASYNC_WITH")]
            if not ws:
                continue
            extra["stdlib_code_objects_with_with"] += 1
            try:
                an = ai312.Analysis(code)
            except (ai312.Unsupported, KeyError, IndexError):
                extra["stdlib_skipped_unsupported"] += 1
                continue
            try:
                table = _lowlevel.analyze_with_blocks(code)
            except Exception as ex:
                if len(cex) < 3:
                    cex.append({"stdlib": fn, "func": code.co_name, "line": code.co_firstlineno, "why": f"analyze_with_blocks raised {ex!r}"})
                continue
            for i, ins in ws:
                w = ins.offset
                if w not in an.states:
                    continue
                p = insns[i - 1].positions
                key = (p.lineno, p.col_offset, p.end_lineno, p.end_col_offset)
                item = items.get(key)
                h = an.with_handler.get(w)
                if item is None or h is None:
                    continue
                paths += 1
                extra["stdlib_with_blocks"] += 1
                c = table.get(h)
                why = None
                if c is None:
                    why = f"no table entry for with at offset {w}"
                else:
                    if c.start_line != item[1]:
                        why = f"start_line {c.start_line} != {item[1]}"
                    elif c.is_async != item[3]:
                        why = "is_async wrong"
                    elif c.varname is not None:
                        extra["stdlib_targets_rendered"] += 1
                        if item[2] is None or norm_target(c.varname) != norm_target(item[2]):
                            why = f"varname {c.varname!r} is not the target {item[2]!r}"
                    elif item[2] is not None:
                        extra["stdlib_targets_dropped"] += 1
                        t = item[2]
                        simple = all(ch.isalnum() or ch in "_." for ch in t)
                        if simple:
                            why = f"plain name/attribute target {t!r} was dropped"
                if why and len(cex) < 3:
                    cex.append({"stdlib": fn, "func": code.co_name, "line": code.co_firstlineno, "with_offset": w, "why": why})
    return {"paths": paths, "queries": paths, "solver_time": 0.0, "exhausted": True, "inconclusive": [], "shard": sh["name"],
            "cex": cex, "samples": [], "extra": extra, "reached": paths}


def run(rep: Any, tier: str, seed: int) -> None:
    import z3
    from harness.c01 import chunks
    from vlib.bc import canary

    rep.engine_name = f"symx (z3 {z3.get_version_string()})"
    rep.functions = FUNCTIONS
    rep.bounds = {"corpus": "the C01 corpus + target forms x layouts: " + str(len(SUPPORTED_TARGETS)) + " supported, " + str(len(UNSUPPORTED_TARGETS)) + f" unsupported targets x {LAYOUTS}",
                  "f_lasti": "every reachable suspension offset", "target grammar": "every target of the grammar name | load.attr | load[idx] | pairs / lists / starred / nested of those, (pair elements: load of <= 0 (thorough 1) steps) load = base followed by <= 2 (thorough 3) of .a / [idx] / (args) / .m(args), idx in " + str(IDX) + ", args in " + str(ARGS) + ", sync and async, on the first or the second with item",
                  "stdlib": "thorough tier: every function of the standard library compiled on this interpreter (static table only)"}
    rep.outside = ["CPython 3.9-3.11", "stdlib functions the abstract interpreter cannot type are skipped and counted",
                   "the static stdlib leg is a concrete enumeration of compiler output (a corpus bound, no symbolic variable)"]
    rep.stubs = ["as C01; locals of the fake frame bind simple-name targets (and the pre-bound m0) to the dummy managers"]
    st = canary.run()
    if st != "ok":
        rep.add_counts(OB_A, 1, 1, status="failed")
        rep.counterexample(OB_A, {"canary": True, "why": st}, "real analysis on a trivial suspended generator: " + st)
        return
    n = 16 if tier == "quick" else 48
    cs = chunks(tier, seed, n)
    # (c01.chunks already contains the supported part of the target corpus; add the unsupported forms here)
    tc = [p for p in target_corpus(tier) if any((t or "") in UNSUPPORTED_TARGETS for t in p[0].get("targets", []))]
    for k, c in enumerate(cs):
        c["programs"] = c["programs"] + tc[k::len(cs)]
    jobs: List[Tuple[str, Any]] = [("_shard", c) for c in cs]
    if tier == "quick":
        jobs += [("_grammar_shard", {"kind": k, "async": a_, "depth": 2, "pair_depth": 0, "first": f_}) for k, a_ in (("gen", False), ("coro", True)) for f_ in (True, False)]
    else:
        jobs += [("_grammar_shard", {"kind": k, "async": a_, "depth": 3, "pair_depth": 1, "form": fm, "first": f_})
                 for k, a_ in (("gen", False), ("coro", True)) for f_ in (True, False) for fm in range(6)]
    if tier == "thorough":
        files = _stdlib_files()
        for k in range(32):
            jobs.append(("_stdlib_shard", {"name": f"stdlib{k}", "files": files[k::32]}))
    res = par.run_mixed("harness.c08", jobs)
    for c in par.fold(rep, OB_A, [r for fn, r in res if fn == "_shard"]):
        rep.counterexample(OB_B if c.get("table") else OB_A, c, c["why"])
    for c in par.fold(rep, OB_G, [r for fn, r in res if fn == "_grammar_shard"]):
        rep.counterexample(OB_G, c, c["why"])
    sl = [r for fn, r in res if fn == "_stdlib_shard"]
    if sl:
        for c in par.fold(rep, OB_B, sl):
            rep.counterexample(OB_B, c, c["why"])
    else:
        nb = rep.extra.get("with_blocks_in_tables", 0)
        rep.add_counts(OB_B, nb, nb, reached=nb)


def replay(case: Dict[str, Any]) -> Dict[str, Any]:
    """Real frames: run the program and compare the metadata reported by the real
    contexts_active_in_frame with the AST."""
    if case.get("grammar"):
        why = grammar_case(case["kind"], case["async"], case["target"], case["first"])
        return {"status": "reproduces" if why else "not-reproduced", "detail": why}
    from stackscope import _lowlevel

    if case.get("canary"):
        from vlib.bc import canary

        st = canary.run()
        return {"status": "reproduces" if st != "ok" else "not-reproduced", "detail": st}
    if "stdlib" in case:
        return _replay_stdlib(case)
    from harness.c01 import analyse_program
    from vlib.bc import dyn

    desc, src = case["desc"], case["src"]
    P = analyse_program(desc, src)
    by_mid = {item[0]: item for item in P["wmap"].values()}
    for ob in dyn.observe_all(src, desc["kind"]):
        for r in ob.get("real", []):
            obj, _, _, varname, start_line = r
            if obj is None or not hasattr(obj, "i"):
                continue
            names = [k for k, v in ob_locals(ob).items() if v is obj]
            why = check_meta(varname, start_line, by_mid[obj.i], names)
            if why:
                return {"status": "reproduces", "detail": {"lasti": ob["lasti"], "why": why}}
    why = table_check(src, P["code"], P["an"], P["wmap"])
    if why and case.get("table"):
        return {"status": "reproduces", "detail": why}
    return {"status": "not-reproduced", "detail": "real runs report correct metadata"}


def ob_locals(ob: Dict[str, Any]) -> Dict[str, Any]:
    return ob.get("locals", {})


def _replay_stdlib(case: Dict[str, Any]) -> Dict[str, Any]:
    r = _stdlib_shard({"name": "replay", "files": [case["stdlib"]]})
    hit = [c for c in r["cex"] if c.get("func") == case.get("func") and c.get("line") == case.get("line")]
    return {"status": "reproduces" if hit else "not-reproduced", "detail": hit[:1]}


def classify(case: Dict[str, Any], out: Dict[str, Any]) -> Optional[str]:
    return None
