"""C02 -- contexts of a frame running on the calling thread are exact, also mid-enter/exit.

Same machinery as C01, different observation points: every reachable call-type instruction
(CALL, BEFORE_WITH, WITH_EXCEPT_START, SEND) of every code object of the running-frame corpus
(plain functions, generators, coroutines, async generators).  f_lasti is symbolic over the
RESTING offsets of those instructions; where f_lasti rests while the callee runs is measured
on the running interpreter in this run (calibration), not transcribed.  The inspect_frame
model trims the stack at the depth the REAL running-frame for/else (AST slice) computes.
Replay: probe managers / probe calls that invoke the real analysis on the really running frame.
"""
from __future__ import annotations

import bisect
import contextlib
import dis
import io
import warnings
from typing import Any, Dict, List, Optional, Set, Tuple

from vlib import par
from vlib.symx import Engine

OB = "C02.running-frame contexts == abstract interpretation (symbolic resting f_lasti)"
FUNCTIONS = ["stackscope._lowlevel.contexts_active_in_frame", "stackscope._lowlevel._contexts_active_by_trickery",
             "stackscope._lowlevel.currently_exiting_context", "stackscope._lowlevel.analyze_with_blocks",
             "stackscope._lowlevel_cpython_311.inspect_frame [running-frame depth trimming + handler-chain walk, AST slices]"]
KINDS = ("CALL", "BEFORE_WITH", "WITH_EXCEPT_START", "SEND")


def expected_at(an: Any, ins: dis.Instruction, state: Tuple[Any, ...]) -> Tuple[Tuple[int, ...], Optional[int]]:
    """(entered, exiting) for a frame RUNNING at instruction `ins` (state = stack before it)."""
    entered, exiting = an.describe(state)
    if ins.opname == "CALL" and ins.arg == 2 and len(state) >= 4:
        t = state[-4]
        if isinstance(t, tuple) and t[0] == "exit":
            exiting = t[1]
            entered = tuple(w for w in entered if w != t[1])
    elif ins.opname == "WITH_EXCEPT_START" and len(state) >= 4:
        t = state[-4]
        if isinstance(t, tuple) and t[0] == "exit":
            exiting = t[1]
            entered = tuple(w for w in entered if w != t[1])
    return entered, exiting


def observation_points(an: Any) -> List[dis.Instruction]:
    return [i for i in an.insns if i.opname in KINDS and i.offset in an.states]


def calibrate(obs: List[Dict[str, Any]], insns: List[dis.Instruction], table: Dict[str, Set[int]]) -> None:
    offs = [i.offset for i in insns]
    for ob in obs:
        if "lasti" not in ob:
            continue
        ins = insns[bisect.bisect_right(offs, ob["lasti"]) - 1]
        table.setdefault(ins.opname, set()).add(ob["lasti"] - ins.offset)


def symbolic_leg(e: Engine, P: Dict[str, Any], model: Any, rest: Dict[str, List[int]]) -> Optional[Dict[str, Any]]:
    from stackscope import _lowlevel
    from vlib.bc import stubs

    an, wmap, code = P["an"], P["wmap"], P["code"]
    pts = observation_points(an)
    cands: List[Tuple[int, dis.Instruction]] = []
    for ins in pts:
        for d in rest.get(ins.opname, [0]):
            cands.append((ins.offset + d, ins))
    if not cands:
        return None
    lo, hi = min(c[0] for c in cands), max(c[0] for c in cands)
    lasti = e.int("f_lasti", lo, hi)
    cond = None
    for o, _ in cands:
        c = (lasti == o)
        cond = c if cond is None else (cond | c)
    e.assume(cond)
    frame = stubs.FakeFrame(code, lasti)
    o = int(lasti)
    ins = next(i for (oo, i) in cands if oo == o)
    states = sorted(an.states[ins.offset], key=repr)
    si = e.choice("state", len(states))
    st = states[si]
    entered, exiting = expected_at(an, ins, st)
    dummies = {mid: stubs.Dummy(mid) for (mid, _, _, _) in wmap.values()}
    model.set(frame, stubs.model_stack(st, dummies, wmap, an.with_offsets), running=True)
    next_inner = None
    if exiting is not None:
        d = dummies[wmap[exiting][0]]
        next_inner = stubs.exit_frame_for(d, an.with_offsets[exiting])
    with warnings.catch_warnings(record=True) as w:
        warnings.simplefilter("always")
        with contextlib.redirect_stderr(io.StringIO()):
            try:
                ctxs = _lowlevel.contexts_active_in_frame(frame, None, next_inner)
                exc = None
            except Exception as ex:
                ctxs, exc = [], ex
    warn = [str(x.message) for x in w if issubclass(x.category, _lowlevel.InspectionWarning)]
    exp = [(dummies[wmap[wo][0]], an.with_offsets[wo], False) for wo in entered]
    if exiting is not None:
        exp.append((dummies[wmap[exiting][0]], an.with_offsets[exiting], True))
    got = [(c.obj, c.is_async, c.is_exiting) for c in ctxs]
    bad = None
    if exc is not None:
        bad = f"raised {exc!r}"
    elif warn:
        bad = "InspectionWarning: " + warn[0][:120]
    elif [(id(a), b, c) for a, b, c in exp] != [(id(a), b, c) for a, b, c in got]:
        bad = f"running at {ins.opname}+{o - ins.offset}: contexts {got} != expected {exp}"
    if bad is None:
        return {"ok": True, "lasti": o, "op": ins.opname}
    f2 = False
    if exiting is not None:
        origin = ins.offset if ins.opname == "CALL" else an.exit_call_origin(st)
        f2 = origin is not None and an.is_unanchored_exit_site(exiting, origin)
    return {"ok": False, "lasti": o, "op": ins.opname, "why": bad, "f2": f2}


def real_deviation(ob: Dict[str, Any], async_of: Dict[int, bool]) -> Optional[str]:
    exp = [(m, False) for m in ob["active"] if m is not ob["exiting"]] + ([(ob["exiting"], True)] if ob["exiting"] else [])
    if "real_exc" in ob:
        return f"raised {ob['real_exc']}"
    if ob.get("warnings"):
        return "InspectionWarning: " + ob["warnings"][0][:160]
    got = [(r[0], r[2]) for r in ob.get("real", [])]
    if [(id(a), b) for a, b in exp] != [(id(a), b) for a, b in got]:
        return f"probe in {ob['where']}: contexts {got} != truth {exp}"
    for (m, _), r in zip(exp, ob.get("real", [])):
        if r[1] != async_of[m.i]:
            return "is_async wrong"
    return None


def validate_running(P: Dict[str, Any], obs: List[Dict[str, Any]]) -> Optional[str]:
    """Model validation for running frames: at every real probe, the event-log truth must be
    one of the expectations the abstract interpreter derives for the instruction the frame rests in."""
    an, wmap = P["an"], P["wmap"]
    offs = [i.offset for i in an.insns]
    for ob in obs:
        if "driver_error" in ob:
            return f"driver error {ob['driver_error']}"
        ins = an.insns[bisect.bisect_right(offs, ob["lasti"]) - 1]
        if ins.opname not in KINDS:
            return f"frame rests in {ins.opname} at {ob['lasti']}, which is not an observation-point kind"
        truth = (tuple(m.i for m in ob["active"] if m is not ob["exiting"]), ob["exiting"].i if ob["exiting"] else None)
        preds = set()
        for st in an.states.get(ins.offset, ()):
            ent, ex = expected_at(an, ins, st)
            preds.add((tuple(wmap[w][0] for w in ent), wmap[ex][0] if ex is not None else None))
        if truth not in preds:
            return f"real probe ({ob['where']}) at {ins.opname}@{ins.offset} sees {truth}; model predicts {sorted(preds, key=repr)}"
    return None


def _shard(sh: Dict[str, Any]) -> Dict[str, Any]:
    from stackscope import _lowlevel
    from vlib.bc import dyn, stubs, ai312
    from harness.c01 import analyse_program

    stubs.install_guard()
    from vlib import repoenv as _repoenv

    noslice: Optional[str] = None
    try:
        model = stubs.InspectModel()
    except _repoenv.CannotEncode as ex:
        # inspect_frame no longer has the shape the slicer knows: the symbolic leg cannot be built from this source.
        # The direct leg (real analysis on really running frames) needs no slice and still runs.
        model = None
        noslice = f"symbolic leg not built: {ex}"
    _lowlevel._check_trickery_available()
    saved = _lowlevel.inspect_frame
    rest = {k: sorted(v) for k, v in sh["rest"].items()}
    cex: List[Dict[str, Any]] = []
    samples: List[Any] = []
    tot = {"paths": 0, "queries": 0, "solver_time": 0.0}
    exhausted = True
    extra = {"code_objects": 0, "observation_points": 0, "real_probes_validated": 0, "f2_counterexamples": 0}
    crash = None
    newrest: Dict[str, Set[int]] = {}
    try:
        for desc, src in sh["programs"]:
            try:
                P = analyse_program(desc, src)
            except ai312.Unsupported:
                continue
            obs = dyn.probe_all(src, desc["kind"])
            # direct leg, no model involved: what the REAL analysis said about the REALLY running frame at every real
            # probe (ctypes half included) against the managers' event log
            async_of = {mid: a for (mid, _, _, a) in P["wmap"].values()}
            for ob in obs:
                if "driver_error" in ob:
                    continue
                dev = real_deviation(ob, async_of)
                if dev and sum(1 for c in cex if c.get("op") == "real-probe") < 2:
                    cex.append({"desc": desc, "src": src, "lasti": ob["lasti"], "op": "real-probe", "why": "real probe: " + dev, "f2": False})
            if model is None:
                extra["real_probes_validated"] += len(obs)
                continue
            why = validate_running(P, obs)
            if why:
                crash = f"model validation failed for {desc}: {why}\n{src}"
                break
            calibrate(obs, P["an"].insns, newrest)
            extra["real_probes_validated"] += len(obs)
            extra["code_objects"] += 1
            _lowlevel.inspect_frame = model
            results: List[Dict[str, Any]] = []

            def harness(e: Engine) -> None:
                r = symbolic_leg(e, P, model, rest)
                if r is not None:
                    results.append(r)

            eng = Engine(max_seconds=120)
            try:
                eng.explore(harness)
            finally:
                _lowlevel.inspect_frame = saved
            tot["paths"] += eng.paths
            tot["queries"] += eng.queries
            tot["solver_time"] += eng.solver_time
            tot["path_exceptions"] = tot.get("path_exceptions", 0) + eng.n_exceptions
            tot.setdefault("path_exception_samples", []).extend(eng.exceptions[:2])
            exhausted = exhausted and eng.exhausted
            extra["observation_points"] += len(results)
            if len(samples) < 1 and results:
                samples.append({"program": desc, "resting_offsets": sorted({(r["op"], r["lasti"]) for r in results})[:12]})
            for r in results:
                if not r["ok"]:
                    if r["f2"]:
                        extra["f2_counterexamples"] += 1
                    key = (r["f2"], r["op"])
                    if sum(1 for c in cex if (c["f2"], c["op"]) == key) < 2:
                        cex.append({"desc": desc, "src": src, "lasti": r["lasti"], "op": r["op"], "why": r["why"], "f2": r["f2"]})
    finally:
        _lowlevel.inspect_frame = saved
    direct = [c for c in cex if c.get("op") == "real-probe"]
    if noslice:
        crash = crash or noslice
        if not direct:
            return {"shard": sh["name"], "crash": noslice}
    if crash and direct:
        # the real analysis already contradicts the event log on a really running frame: that is a verdict; the model
        # mismatch that followed is its consequence, not a harness problem
        return {"paths": tot["paths"], "queries": tot["queries"], "solver_time": tot["solver_time"], "exhausted": False,
                "inconclusive": ["stopped at a real-probe violation: " + crash[:160]], "shard": sh["name"], "cex": direct, "samples": samples,
                "extra": extra, "reached": extra["observation_points"]}
    if crash:
        return {"shard": sh["name"], "crash": crash}
    # a resting offset seen in this shard that the calibration table lacks means the table is incomplete
    for k, v in newrest.items():
        if not v <= set(rest.get(k, [])):
            return {"shard": sh["name"], "crash": f"calibration incomplete: {k} rests at {sorted(v)} but table has {rest.get(k)}"}
    return {"paths": tot["paths"], "queries": tot["queries"], "solver_time": tot["solver_time"], "exhausted": exhausted,
            "path_exceptions": tot.get("path_exceptions", 0), "path_exception_samples": tot.get("path_exception_samples", [])[:3],
            "inconclusive": [], "shard": sh["name"], "cex": cex, "samples": samples, "extra": extra, "reached": extra["observation_points"]}


CALIBRATION = [("func", "none", False, 1, "plain", "stmt"), ("func", "try_body", False, 2, "raise", "stmt"),
               ("coro", "none", True, 1, "plain", "stmt"), ("coro", "try_body", True, 1, "raise", "stmt"),
               ("gen", "for", False, 1, "if_break", "nothing"), ("agen", "none", True, 2, "plain", "second_with")]


def calibration_table() -> Dict[str, List[int]]:
    """Where f_lasti rests while the callee runs, per instruction kind: measured on this interpreter."""
    from vlib.bc import dyn, progs

    t: Dict[str, Set[int]] = {}
    for spec in CALIBRATION:
        src = progs.build(*spec, probes=True)
        assert src
        code = dyn.compile_prog(src).__code__
        obs = dyn.probe_all(src, spec[0])
        calibrate(obs, list(dis.get_instructions(code)), t)
    # an ordinary CALL may run its callee inlined (f_lasti on the last cache entry) or through C
    # (f_lasti on the instruction itself); both are observation points
    if "CALL" in t:
        t["CALL"] |= {0}
    return {k: sorted(v) for k, v in t.items()}


def chunks_running(tier: str, seed: int, n: int) -> List[Dict[str, Any]]:
    from vlib.bc import progs

    import os

    allp = list(progs.corpus_running(tier, seed))
    stride = int(os.environ.get("VERIF_CORPUS_STRIDE", "1") or 1)
    allp = allp[seed % stride::stride]
    out = [{"name": f"chunk{k}", "programs": allp[k::n]} for k in range(n)]
    return [c for c in out if c["programs"]]


def run(rep: Any, tier: str, seed: int) -> None:
    import sys

    import z3
    from vlib.bc import canary

    rep.engine_name = f"symx (z3 {z3.get_version_string()})"
    rep.functions = FUNCTIONS
    st = canary.run()
    if st != "ok":
        rep.add_counts(OB, 1, 1, status="failed")
        rep.counterexample(OB, {"canary": True, "why": st}, "real analysis on a trivial suspended generator: " + st)
        return
    rest = calibration_table()
    rep.bounds = {"interpreter": sys.version.split()[0], "corpus": f"running-frame corpus ({tier}): the C01 grammar with probe calls, for plain functions, generators, coroutines, async generators",
                  "observation points": "every reachable CALL / BEFORE_WITH / WITH_EXCEPT_START / SEND", "resting offsets (measured this run)": rest}
    rep.outside = ["the ctypes half of inspect_frame", "CPython 3.9-3.11", "f_lasti conventions of opcodes the calibration set does not reach (attribute/subscript/iterator instructions entering Python code)",
                   "frames running on another thread (C07)"]
    rep.stubs = ["FakeFrame + inspect_frame model (running=True: stack trimmed at the depth the real for/else slice computes)"]
    rep.assumptions = ["resting-offset table measured by real probes in this run; every real probe of the run must rest at an offset in the table (else exit 2)",
                       "abstract interpreter validated against the event log at every real probe"]
    cs = chunks_running(tier, seed, 32 if tier == "quick" else 64)
    for c in cs:
        c["rest"] = rest
    res = par.run_shards("harness.c02", "_shard", cs)
    for c in par.fold(rep, OB, res):
        rep.counterexample(OB, c, c["why"])


def replay(case: Dict[str, Any]) -> Dict[str, Any]:
    if case.get("canary"):
        from vlib.bc import canary

        st = canary.run()
        return {"status": "reproduces" if st != "ok" else "not-reproduced", "detail": st}
    from harness.c01 import analyse_program
    from vlib.bc import dyn

    desc, src, lasti = case["desc"], case["src"], case["lasti"]
    P = analyse_program(desc, src)
    async_of = {mid: a for (mid, _, _, a) in P["wmap"].values()}
    obs = [ob for ob in dyn.probe_all(src, desc["kind"]) if ob.get("lasti") == lasti]
    if not obs:
        return {"status": "unreachable", "detail": "no real probe observes the frame resting at this offset"}
    for ob in obs:
        dev = real_deviation(ob, async_of)
        if dev:
            return {"status": "reproduces", "detail": {"where": ob["where"], "script": ob["script"], "throw_at": ob["throw_at"], "deviation": dev}}
    return {"status": "not-reproduced", "detail": f"{len(obs)} real probes at this offset agree with the event log"}


def classify(case: Dict[str, Any], out: Dict[str, Any]) -> Optional[str]:
    if case.get("f2"):
        return "F2"
    return None
