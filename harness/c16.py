"""C16 -- Frame.origin and extract_outermost keep their documented contracts.

Engine: symx (solver-enumerated scenarios; LOW SOLVER LEVERAGE, as C03).  Own obligations on
shared drivers: every extraction performed by the C03 chain driver (every link kind) and by
the C10 item-tree driver (raw frames, generators, weak-referenceable and slot-only items),
plus threads, greenlets, running generators / coroutines / async generators, and frameless roots.
Real code: better_origin, the origin reset in extract_iter, extract_outermost.
"""
from __future__ import annotations

import sys
import threading
import weakref
from typing import Any, Dict, List, Optional

import stackscope
from vlib import par
from vlib.symx import Engine

from harness import chaindrv as C
from harness import itemdrv as D

OB1 = "C16.origin contract on every frame of every chain / tree"
OB2 = "C16.extract_outermost == first frame of extract (or raises)"
OB3 = "C16.origin of frames inward of a RUNNING generator-like"
FUNCTIONS = ["stackscope._extract.better_origin", "stackscope._extract.extract_iter (origin tracking)", "stackscope._extract.extract_outermost"]


def origin_contract(st: Any, owners: Optional[List[Any]] = None) -> Optional[str]:
    for i, f in enumerate(st.frames):
        if f.origin is not None:
            try:
                weakref.ref(f.origin)
            except TypeError:
                return f"frame {i} ({f.funcname}): origin {f.origin!r} is not weak-referenceable"
            try:
                fo = stackscope.extract_outermost(f.origin)
            except Exception as ex:
                return f"frame {i} ({f.funcname}): extract_outermost(origin) raised {ex!r}"
            if fo.pyframe is not f.pyframe:
                return (f"frame {i} ({f.funcname}): extract_outermost(origin).pyframe is the frame of "
                        f"{fo.funcname}, not this frame (origin={type(f.origin).__name__})")
        if owners is not None and i < len(owners) and owners[i] is not None:
            if f.origin is not owners[i]:
                return f"frame {i} ({f.funcname}) was found inside {owners[i]!r} but its origin is {f.origin!r}"
    return None


def frames_equal(a: Any, b: Any) -> Optional[str]:
    if a.pyframe is not b.pyframe:
        return "different frame object"
    for fld in ("lineno", "hide", "hide_line"):
        if getattr(a, fld) != getattr(b, fld):
            return f"{fld} differs"
    if a.origin is not b.origin:
        return "origin differs"
    if list(a.contexts) != list(b.contexts):
        return "contexts differ"
    return None


def outermost_contract(x: Any, **kw: Any) -> Optional[str]:
    st = stackscope.extract(x, **kw)
    try:
        fo = stackscope.extract_outermost(x, **kw)
    except Exception as ex:
        if st.frames:
            return f"extract_outermost raised {ex!r} although extract has frames"
        if st.error is not None and not isinstance(st.error, BaseExceptionGroup):
            if type(ex) is not type(st.error) or str(ex) != str(st.error):
                return f"extract_outermost raised {ex!r}, extract recorded {st.error!r}"
        if isinstance(st.error, BaseExceptionGroup):
            # several errors were recorded: what is re-raised must be those errors, not one of them
            members = lambda g: sorted((type(m).__name__, str(m)) for m in g.exceptions)
            if not isinstance(ex, BaseExceptionGroup) or members(ex) != members(st.error):
                return f"extract_outermost raised {ex!r}, extract recorded the group {st.error!r} of {members(st.error)}"
        return None
    if not st.frames:
        return f"extract_outermost returned {fo} although extract has no frames"
    why = frames_equal(fo, st.frames[0])
    return f"extract_outermost(x) != extract(x).frames[0]: {why}" if why else None


# ------------------------------------------------------------------ scenarios
def chain_case(root: str, kinds: List[str], terminal: str) -> Optional[str]:
    x, handle, reg = C.build(root, kinds, terminal, False)
    st = stackscope.extract(x)
    owners = list(reg.owners)
    why = origin_contract(st, owners)
    if why:
        return why
    return outermost_contract(x) or outermost_contract(x, with_contexts=False)


TREES = [
    ["I", "tuple", [["G", 0], ["G", 1], ["F", 2]]],
    ["I", "iter", [["F", 0], ["I", "list", [["G", 1], ["G", 2]]]]],
    ["S", [["G", 0], ["I", "tuple", [["G", 1]]], ["F", 2]]],
    ["I", "list", [["I", "empty", []], ["L", 0]]],
    ["I", "single", [["G", 0]]],
    ["I", "tuple", [["I", "none", []]]],
    ["G", 3],
    ["F", 4],
    ["I", "boom", []],
    ["I", "tuple", [["I", "boom", []]]],
    ["I", "iter", [["I", "single", [["I", "boom", []]]]]],
    # two members fail and nothing yields a frame: both errors are recorded
    ["I", "tuple", [["I", "boom", []], ["I", "boom", []]]],
    ["I", "list", [["I", "boom", []], ["I", "empty", []], ["I", "tuple", [["I", "boom", []]]]]],
]
BEHS = [{}, {0: ["ins", [["G", 3]]]}, {1: ["rep1", ["G", 4]]}, {0: ["prune"]}, {0: ["raise"]}]


def tree_case(ti: int, bi: int) -> Optional[str]:
    tree, beh = TREES[ti], BEHS[bi]
    D.set_behaviour(beh)
    x = D.build(tree)
    st = stackscope.extract(x, with_contexts=False)
    # frames reached by looking inside a pool generator must have that generator as origin
    owners: List[Any] = []
    for f in st.frames:
        idx = D.FRAME_INDEX.get(id(f.pyframe))
        owners.append(None)
        if f.origin is not None and idx is not None and f.origin is not D.POOL_GENS[idx]:
            if isinstance(f.origin, type(D.POOL_GENS[0])):
                return f"frame of pool generator {idx} has another generator as origin"
    why = origin_contract(st)
    if why:
        return why
    lin = D.lin_depth(tree, 0)
    for f in st.frames:
        idx = D.FRAME_INDEX.get(id(f.pyframe))
        # was this frame listed through a ["G", idx] terminal (looked inside the generator)?
        if idx is not None and _has_gen_terminal(tree, idx, beh) and not _has_raw_terminal(tree, idx, beh):
            if f.origin is not D.POOL_GENS[idx]:
                return f"frame obtained by looking inside suspended generator {idx} has origin {f.origin!r}"
    D.set_behaviour(beh)
    return outermost_contract(x, with_contexts=False)


def _terms(t: Any, acc: List[Any]) -> None:
    if t is None:
        return
    if t[0] in ("F", "G", "L"):
        acc.append(t)
    elif t[0] == "I":
        for k in t[2]:
            _terms(k, acc)
    elif t[0] == "S":
        for k in t[1]:
            _terms(k, acc)


def _all_terms(tree: Any, beh: Dict[int, Any]) -> List[Any]:
    acc: List[Any] = []
    _terms(tree, acc)
    for b in beh.values():
        if b[0] == "rep1":
            _terms(b[1], acc)
        elif b[0] in ("repseq", "ins"):
            for t in b[1]:
                _terms(t, acc)
    return acc


def _has_gen_terminal(tree: Any, idx: int, beh: Dict[int, Any]) -> bool:
    return any(t[0] == "G" and t[1] == idx for t in _all_terms(tree, beh))


def _has_raw_terminal(tree: Any, idx: int, beh: Dict[int, Any]) -> bool:
    return any(t[0] == "F" and t[1] == idx for t in _all_terms(tree, beh))


def thread_case() -> Optional[str]:
    ready, done = threading.Event(), threading.Event()

    def inner() -> None:
        ready.set()
        done.wait(20)

    t = threading.Thread(target=lambda: inner(), daemon=True)
    t.start()
    ready.wait(10)
    try:
        st = stackscope.extract(t)
        why = origin_contract(st)
        return why or outermost_contract(t)
    finally:
        done.set()
        t.join(5)


def greenlet_case() -> Optional[str]:
    import greenlet

    def f() -> None:
        greenlet.getcurrent().parent.switch()

    g = greenlet.greenlet(lambda: f())
    g.switch()
    try:
        st = stackscope.extract(g)
        return origin_contract(st) or outermost_contract(g)
    finally:
        g.switch()


class Future:
    """A custom awaitable whose stack item is resolved by a registered unwrap_stackitem hook to
    something that yields plain frames (a parked thread, a suspended greenlet, a list of frames)."""

    def __init__(self, target: Any):
        self.target = target
        self.n = 0

    def __await__(self) -> "Future":
        return self

    def __iter__(self) -> "Future":
        return self

    def __next__(self) -> str:
        self.n += 1
        if self.n == 1:
            return "future-trap"
        raise StopIteration


stackscope.unwrap_stackitem.register(Future)(lambda f: f.target)


def bridged_case(kind: int) -> Optional[str]:
    """A SUSPENDED coroutine awaits a Future that unwraps to frames owned by something else.  Those
    frames were not found 'by looking inside' the coroutine's own frame, and whatever origin they carry
    must still lead back to them."""
    import greenlet

    ready, done = threading.Event(), threading.Event()
    cleanup: List[Any] = []
    if kind == 0:
        def inner() -> None:
            ready.set()
            done.wait(20)

        t = threading.Thread(target=lambda: inner(), daemon=True)
        t.start()
        ready.wait(10)
        target: Any = t
        cleanup.append(lambda: (done.set(), t.join(5)))
    elif kind == 1:
        def f() -> None:
            greenlet.getcurrent().parent.switch()

        g = greenlet.greenlet(lambda: f())
        g.switch()
        target = g
        cleanup.append(lambda: g.switch())
    else:
        target = [D.POOL_GENS[5].gi_frame, D.POOL_GENS[6]]

    async def waiter() -> None:
        await Future(target)

    async def top() -> None:
        await waiter()

    co = top()
    co.send(None)
    try:
        st = stackscope.extract(co)
        if len(st.frames) < 3:
            return f"bridge not followed: {[f.funcname for f in st.frames]} error={st.error!r}"
        why = origin_contract(st)
        if why:
            return why
        if st.frames[0].origin is not co:
            return "the awaiting coroutine's own frame lost its origin"
        return outermost_contract(co)
    finally:
        for c in cleanup:
            c()
        co.close()


def frameless_case(i: int) -> Optional[str]:
    objs = [42, None, "x", threading.Thread(target=print), stackscope.extract]
    return outermost_contract(objs[i])


def running_case(kind: int, depth: int) -> Optional[str]:
    """extract(x) from a callee `depth` calls below a RUNNING generator / coroutine / async generator."""
    out: List[Any] = []

    def callee(x: Any, d: int) -> None:
        if d > 0:
            return callee(x, d - 1)
        st = stackscope.extract(x)
        out.append(origin_contract(st) or outermost_contract(x))

    holder: List[Any] = []
    if kind == 0:
        def gen() -> Any:
            callee(holder[0], depth)
            yield 1

        holder.append(gen())
        next(holder[0])
    elif kind == 1:
        async def co() -> Any:
            callee(holder[0], depth)

        holder.append(co())
        try:
            holder[0].send(None)
        except StopIteration:
            pass
    else:
        async def ag() -> Any:
            callee(holder[0], depth)
            yield 1

        holder.append(ag())
        try:
            holder[0].asend(None).send(None)
        except StopIteration:
            pass
    return out[0] if out else "callee never ran"


def _shard(sh: Dict[str, Any]) -> Dict[str, Any]:
    cex: List[Dict[str, Any]] = []
    samples: List[Any] = []
    what = sh["what"]

    def harness(e: Engine) -> None:
        if what == "chain":
            root, depth = sh["root"], sh["depth"]
            ks = C.GEN_KINDS if root == "generator" else C.AWAIT_KINDS
            kinds = [ks[e.choice(f"link{j}", len(ks))] for j in range(depth)]
            terminal = "trap" if root == "generator" else C.TERMINALS[e.choice("terminal", 2)]
            why = chain_case(root, kinds, terminal)
            case = {"what": "chain", "root": root, "kinds": kinds, "terminal": terminal}
        elif what == "tree":
            ti, bi = e.choice("tree", len(TREES)), e.choice("beh", len(BEHS))
            why = tree_case(ti, bi)
            case = {"what": "tree", "tree": ti, "beh": bi}
        elif what == "misc":
            k = e.choice("scenario", 10)
            why = thread_case() if k == 0 else greenlet_case() if k == 1 else frameless_case(k - 2) if k < 7 else bridged_case(k - 7)
            case = {"what": "misc", "k": k}
        else:
            kind, depth = e.choice("kind", 3), e.choice("depth", 3)
            why = running_case(kind, depth)
            case = {"what": "running", "kind": kind, "depth": depth}
        if len(samples) < 1:
            samples.append(case)
        if why and len(cex) < 4:
            cex.append(dict(case, why=why))

    eng = Engine(max_seconds=600)
    eng.explore(harness)
    return par.shard_result(eng, shard=str({k: v for k, v in sh.items()}), cex=cex, samples=samples)


def run(rep: Any, tier: str, seed: int) -> None:
    import z3

    rep.engine_name = f"symx (z3 {z3.get_version_string()})"
    rep.functions = FUNCTIONS
    Dp = 2 if tier == "quick" else 3
    rep.bounds = {"chains": f"depth 0..{Dp} over the C03 link kinds, 3 roots, 2 terminals", "item trees": f"{len(TREES)} trees x {len(BEHS)} hook tables",
                  "others": "parked thread, suspended greenlet, 5 frameless roots, a suspended coroutine awaiting a custom awaitable that unwraps to a thread / greenlet / list of frames", "running": "generator / coroutine / async generator, extracted from 0..2 calls below"}
    rep.outside = ["chains deeper than the bound", "Trio / greenback item kinds"]
    rep.assumptions = ["low solver leverage: finite scenario product certified complete by the solver"]
    shards: List[Dict[str, Any]] = [{"what": "chain", "root": r, "depth": d} for r in C.ROOTS for d in range(0, Dp + 1)]
    shards += [{"what": "tree"}, {"what": "misc"}, {"what": "running"}]
    res = par.run_shards("harness.c16", "_shard", shards)
    for r in res:
        name = OB3 if "running" in str(r.get("shard")) else (OB2 if "misc" in str(r.get("shard")) else OB1)
        for c in par.fold(rep, name, [r]):
            rep.counterexample(name, c, c["why"])


def replay(c: Dict[str, Any]) -> Dict[str, Any]:
    w = c["what"]
    if w == "chain":
        why = chain_case(c["root"], c["kinds"], c["terminal"])
    elif w == "tree":
        why = tree_case(c["tree"], c["beh"])
    elif w == "misc":
        k = c["k"]
        why = thread_case() if k == 0 else greenlet_case() if k == 1 else frameless_case(k - 2) if k < 7 else bridged_case(k - 7)
    else:
        why = running_case(c["kind"], c["depth"])
    return {"status": "reproduces" if why else "not-reproduced", "detail": why}


def classify(c: Dict[str, Any], out: Dict[str, Any]) -> Optional[str]:
    if c.get("what") == "running" and "extract_outermost(origin).pyframe is the frame of" in str(out.get("detail")):
        return "F5"
    return None
