"""C01 -- contexts of a suspended frame are exactly the entered-but-not-exited managers.

Bytecode leg on CPython 3.12 (the interpreter of /venv).
 L1/L2  genuinely symbolic lemma (symx BV mode): the real _parse_exception_table and
        the real handler-chain walk of inspect_frame (AST slice) on SYMBOLIC table bytes
        and a SYMBOLIC instruction index, against the format specification and a
        transcription of CPython's get_exception_handler.
 main   per generated code object (the compiler is run concretely; the corpus is a
        stated bound): f_lasti symbolic over every reachable suspension offset, real
        contexts_active_in_frame / _contexts_active_by_trickery / analyze_with_blocks /
        currently_exiting_context on a FakeFrame with the inspect_frame model;
        oracle = tagged abstract interpretation (vlib/bc/ai312.py).
Model validation (exit 2 on mismatch) and replay use real executions (vlib/bc/dyn.py).
"""
from __future__ import annotations

import io
import contextlib
import os
import sys
import warnings
from typing import Any, Dict, List, Optional, Tuple

from vlib import par
from vlib.symx import Engine

OB_L1 = "C01.L1 exception-table decoder == format spec (symbolic bytes)"
OB_L2 = "C01.L2 handler-chain walk == get_exception_handler (symbolic table, symbolic index)"
OB_MAIN = "C01.suspended-frame contexts == abstract interpretation (symbolic f_lasti)"
FUNCTIONS = ["stackscope._lowlevel._parse_varint", "stackscope._lowlevel._parse_exception_table",
             "stackscope._lowlevel_cpython_311.inspect_frame [handler-chain walk, AST slice]",
             "stackscope._lowlevel.contexts_active_in_frame", "stackscope._lowlevel._contexts_active_by_trickery",
             "stackscope._lowlevel.analyze_with_blocks", "stackscope._lowlevel.currently_exiting_context"]


# ===================================================================== lemma
class _FakeCode:
    def __init__(self, table: List[Any]):
        self.co_exceptiontable = table


def _mk_field(e: Engine, name: str, nbytes: int, first: bool) -> Tuple[List[Any], Any]:
    digits = [e.int(f"{name}_d{j}", 0, 63) for j in range(nbytes)]
    val: Any = 0
    bs = []
    for j, d in enumerate(digits):
        val = val * 64 + d
        b = d + (64 if j < nbytes - 1 else 0) + (128 if (first and j == 0) else 0)
        bs.append(b)
    return bs, val


def _lemma_shard(sh: Dict[str, Any]) -> Dict[str, Any]:
    from stackscope import _lowlevel
    from vlib import repoenv

    E, NB, which = sh["entries"], sh["nbytes"], sh["which"]
    chain_walk, _ = repoenv.slice_chain_walk()
    cex: List[Dict[str, Any]] = []
    samples: List[Any] = []
    reached = [0]

    def harness(e: Engine) -> None:
        table: List[Any] = []
        spec: List[Tuple[Any, Any, Any, Any]] = []
        for i in range(E):
            fields = []
            for fi, fname in enumerate(("start", "len", "target", "dl")):
                fixed = sh.get("fixed0")
                nb = fixed[fi] if (fixed and i == 0) else 1 + e.choice(f"e{i}_{fname}_nbytes", NB)
                bs, val = _mk_field(e, f"e{i}_{fname}", nb, first=(fi == 0))
                table.extend(bs)
                fields.append(val)
            spec.append(tuple(fields))  # type: ignore[arg-type]
        if which == "L1":
            got = list(_lowlevel._parse_exception_table(_FakeCode(table)))  # REAL decoder, symbolic bytes
            reached[0] += 1
            ok = len(got) == E
            if ok:
                for (s, ln, t, dl), g in zip(spec, got):
                    if ln == 0:
                        continue  # CPython never emits empty ranges; the inclusive end is meaningless there
                    exp = (s * 2, s * 2 + ln * 2 - 2, t * 2, dl // 2, (dl % 2) == 1)
                    for a, b in zip(exp, g):
                        if isinstance(b, bool):
                            if bool(a) != b:
                                ok = False
                        elif not (a == b):
                            ok = False
            if not ok and len(cex) < 3:
                m = e.model()
                cex.append({"lemma": "L1", "model": m, "why": "decoder disagrees with the varint/entry format"})
            return
        # ---- L2: well-formed table (CPython invariant): sorted, disjoint, non-empty, handlers after their range
        prev_end: Any = 0
        for (s, ln, t, dl) in spec:
            e.assume(ln >= 1)
            e.assume(s >= prev_end)
            e.assume(t >= s + ln)
            prev_end = s + ln
        index = e.int("index", 0, None)
        e.assume(index <= prev_end + 1)
        details = chain_walk(_FakeCode(table), index * 2)      # REAL chain walk, symbolic bytes and index
        real_chain = [(b.handler, b.level) for b in reversed(details.blocks)]
        reached[0] += 1
        # transcription of get_exception_handler (Python/ceval.c), iterated as an unwinding would
        ref_chain: List[Tuple[Any, Any]] = []
        cur = index
        for _ in range(E + 1):
            found = None
            for (s, ln, t, dl) in spec:
                if s > cur:
                    break
                if s + ln > cur:
                    found = (t, dl // 2)
                    break
            if found is None:
                break
            ref_chain.append((found[0] * 2, found[1]))
            cur = found[0]
        ok = len(real_chain) == len(ref_chain) and len(real_chain) <= E
        if ok:
            for (h1, l1), (h2, l2) in zip(real_chain, ref_chain):
                if not (h1 == h2) or not (l1 == l2):
                    ok = False
        if len(samples) < 1:
            samples.append({"lemma": "L2", "entries": E, "one model": e.model()})
        if not ok and len(cex) < 3:
            cex.append({"lemma": "L2", "model": e.model(), "entries": E, "why": "handler chain differs from CPython's table lookup"})

    eng = Engine(bv=40, query_timeout_ms=20000, max_seconds=sh.get("budget", 600), max_decisions_per_path=3000,
                 cross_check=bool(sh.get("cvc5")))
    eng.explore(harness)
    return par.shard_result(eng, shard=f"{which}/E={E}/NB={NB}/{sh.get('fixed0')}", cex=cex, samples=samples, reached=reached[0],
                            extra={"lemma_unsat_answers_confirmed_by_cvc5": eng.cross_checked})


def replay_lemma(case: Dict[str, Any]) -> Dict[str, Any]:
    """Concrete bytes through the real decoder / real inspect_frame chain walk vs CPython itself
    is not possible for arbitrary tables (code objects validate nothing, but frames need real
    code), so the concrete values are re-run through the same real functions."""
    from stackscope import _lowlevel
    from vlib import repoenv

    m = case["model"]
    ents: Dict[int, Dict[str, List[int]]] = {}
    for k, v in m.items():
        if "_d" not in k:
            continue
        ei, fname, dj = k.split("_")[0], k.split("_")[1], int(k.split("_d")[1])
        ents.setdefault(int(ei[1:]), {}).setdefault(fname, []).append((dj, v))
    table: List[int] = []
    spec = []
    for i in sorted(ents):
        row = []
        for fi, fname in enumerate(("start", "len", "target", "dl")):
            ds = [v for _, v in sorted(ents[i][fname])]
            val = 0
            for j, d in enumerate(ds):
                val = val * 64 + d
                table.append(d + (64 if j < len(ds) - 1 else 0) + (128 if (fi == 0 and j == 0) else 0))
            row.append(val)
        spec.append(row)
    got = list(_lowlevel._parse_exception_table(_FakeCode(table)))
    if case["lemma"] == "L1":
        exp = [(s * 2, s * 2 + ln * 2 - 2, t * 2, dl >> 1, bool(dl & 1)) for s, ln, t, dl in spec]
        bad = got != exp
        return {"status": "reproduces" if bad else "not-reproduced", "detail": {"got": got, "expected": exp}}
    chain_walk, _ = repoenv.slice_chain_walk()
    idx = m["index"]
    det = chain_walk(_FakeCode(table), idx * 2)
    real = [(b.handler, b.level) for b in reversed(det.blocks)]
    ref = []
    cur = idx
    for _ in range(len(spec) + 1):
        f = None
        for s, ln, t, dl in spec:
            if s > cur:
                break
            if s + ln > cur:
                f = (t, dl >> 1)
                break
        if f is None:
            break
        ref.append((f[0] * 2, f[1]))
        cur = f[0]
    return {"status": "reproduces" if real != ref else "not-reproduced", "detail": {"real": real, "ref": ref, "table": table, "index": idx}}


# ====================================================================== main
def analyse_program(desc: Dict[str, Any], src: str) -> Dict[str, Any]:
    """Everything needed for one code object; shared with C02/C08/C20."""
    from vlib.bc import ai312, dyn

    prog = dyn.compile_prog(src)
    code = prog.__code__
    an = ai312.Analysis(code)
    wmap = dyn.with_item_map(src, code)
    return {"prog": prog, "code": code, "an": an, "wmap": wmap}


def validate_model(desc: Dict[str, Any], src: str, P: Dict[str, Any], obs: List[Dict[str, Any]]) -> Optional[str]:
    """Role (b): the abstract interpreter and the stack model must agree with the real
    interpreter at every real suspension.  A mismatch is a harness error, not a verdict."""
    import types as _t
    from vlib.bc.dyn import is_exit_method as dyn_is_exit_method

    an, wmap = P["an"], P["wmap"]
    for ob in obs:
        if "driver_error" in ob:
            return f"driver error {ob['driver_error']}"
        views = an.suspended_views(ob["lasti"])
        truth = (tuple(m.i for m in ob["active"] if m is not ob["exiting"]), ob["exiting"].i if ob["exiting"] else None)
        cands = [st for st, ent, ex in views
                 if (tuple(wmap[w][0] for w in ent), wmap[ex][0] if ex is not None else None) == truth]
        if not cands:
            preds = [(tuple(wmap[w][0] for w in ent), wmap[ex][0] if ex is not None else None) for _, ent, ex in views]
            return f"real run reaches lasti={ob['lasti']} with {truth}, abstract interpreter predicts {preds}"
        real = ob.get("stack")
        if real is None:
            return f"real inspect_frame failed: {ob.get('stack_exc')}"

        def matches(st: Any) -> bool:
            if len(real) != len(st):
                return False
            for t, r in zip(st, real):
                ism = dyn_is_exit_method(r)
                if (isinstance(t, tuple) and t[0] == "exit") != ism:
                    return False
                if ism and r.__self__.i != wmap[t[1]][0]:
                    return False
            return True

        # (exception edges are over-approximated, so a spurious abstract state may sit next to the real one)
        if not any(matches(st) for st in cands):
            return f"no abstract state at lasti={ob['lasti']} matches the real stack (depth {len(real)})"
    return None


def real_deviation(ob: Dict[str, Any]) -> Optional[str]:
    """Does the REAL code on the REAL frame deviate from the event log at this observation?"""
    exp = [(m, False) for m in ob["active"] if m is not ob["exiting"]] + ([(ob["exiting"], True)] if ob["exiting"] else [])
    if "real_exc" in ob:
        return f"raised {ob['real_exc']}"
    got = [(r[0], r[2]) for r in ob.get("real", [])]
    if ob.get("warnings"):
        return "InspectionWarning: " + ob["warnings"][0][:160]
    if [(id(a), b) for a, b in exp] != [(id(a), b) for a, b in got]:
        return f"contexts {got} != truth {exp}"
    for (m, _), r in zip(exp, ob.get("real", [])):
        if r[1] != wm_async(ob, m):
            return "is_async wrong"
    return None


def wm_async(ob: Dict[str, Any], m: Any) -> bool:
    return ob["async_of"][m.i]


def symbolic_leg(e: Engine, P: Dict[str, Any], model: Any, trickery_ref: Any) -> Optional[Dict[str, Any]]:
    """One path = one (suspension offset, abstract view).  Runs the REAL analysis code."""
    from stackscope import _lowlevel
    from vlib.bc import stubs

    an, wmap, code = P["an"], P["wmap"], P["code"]
    yoffs = an.yield_offsets()
    if not yoffs:
        return None
    lasti = e.int("f_lasti", min(yoffs), max(yoffs))
    # f_lasti ranges over exactly the reachable suspension offsets
    cond = None
    for o in yoffs:
        c = (lasti == o)
        cond = c if cond is None else (cond | c)
    e.assume(cond)
    frame = stubs.FakeFrame(code, lasti)
    dummies = {mid: stubs.Dummy(mid) for (mid, _, _, _) in wmap.values()}
    # the stack model needs the concrete offset; the real code realises it too at code[offs]
    o = int(lasti)
    views = sorted(an.suspended_views(o), key=repr)
    vi = e.choice("view", len(views))
    stack_tags, entered, exiting = views[vi]
    model.set(frame, stubs.model_stack(stack_tags, dummies, wmap, an.with_offsets))
    next_inner = None
    if exiting is not None:
        d = dummies[wmap[exiting][0]]
        next_inner = stubs.exit_frame_for(d, an.with_offsets[exiting])
    with warnings.catch_warnings(record=True) as w:
        warnings.simplefilter("always")
        with contextlib.redirect_stderr(io.StringIO()):
            try:
                ctxs = _lowlevel.contexts_active_in_frame(frame, None, next_inner)
                exc = None
            except Exception as ex:
                ctxs, exc = [], ex
    warn = [str(x.message) for x in w if issubclass(x.category, _lowlevel.InspectionWarning)]
    exp = [(dummies[wmap[wo][0]], an.with_offsets[wo], False) for wo in entered]
    if exiting is not None:
        exp.append((dummies[wmap[exiting][0]], an.with_offsets[exiting], True))
    got = [(c.obj, c.is_async, c.is_exiting) for c in ctxs]
    bad = None
    if exc is not None:
        bad = f"raised {exc!r}"
    elif warn:
        bad = "InspectionWarning: " + warn[0][:120]
    elif [(id(a), b, c) for a, b, c in exp] != [(id(a), b, c) for a, b, c in got]:
        bad = f"contexts {got} != expected {exp}"
    if bad is None:
        return {"ok": True, "lasti": o}
    f2 = False
    if exiting is not None:
        origin = an.exit_call_origin(stack_tags)
        f2 = origin is not None and an.is_unanchored_exit_site(exiting, origin)
    return {"ok": False, "lasti": o, "why": bad, "f2": f2}


def _main_shard(sh: Dict[str, Any]) -> Dict[str, Any]:
    from stackscope import _lowlevel
    from vlib.bc import dyn, stubs, ai312

    progs_ = sh["programs"]
    stubs.install_guard()
    from vlib import repoenv as _repoenv

    noslice: Optional[str] = None
    try:
        model = stubs.InspectModel()
    except _repoenv.CannotEncode as ex:
        model = None        # see harness/c02.py: only the direct leg on real suspensions can run
        noslice = f"symbolic leg not built: {ex}"
    _lowlevel._check_trickery_available()          # real self-test on real frames first
    saved = _lowlevel.inspect_frame
    cex: List[Dict[str, Any]] = []
    samples: List[Any] = []
    tot = {"paths": 0, "queries": 0, "solver_time": 0.0}
    exhausted = True
    inconc: List[str] = []
    extra = {"code_objects": 0, "observation_points": 0, "real_suspensions_validated": 0, "f2_counterexamples": 0,
             "unsupported_code_objects": 0}
    crash = None
    try:
        for desc, src in progs_:
            try:
                P = analyse_program(desc, src)
            except ai312.Unsupported as ex:
                extra["unsupported_code_objects"] += 1
                continue
            obs = dyn.observe_all(src, desc["kind"])
            # direct leg, no model involved: the REAL analysis (ctypes half included) on every REAL suspension
            for ob in obs:
                if "driver_error" in ob:
                    continue
                ob["async_of"] = {mid: a for (mid, _, _, a) in P["wmap"].values()}
                dev = real_deviation(ob)
                if dev and sum(1 for c in cex if c.get("real_suspension")) < 2:
                    cex.append({"desc": desc, "src": src, "lasti": ob["lasti"], "why": "real suspension: " + dev, "f2": False, "real_suspension": True})
            if model is None:
                extra["real_suspensions_validated"] += len(obs)
                continue
            why = validate_model(desc, src, P, obs)
            if why:
                crash = f"model validation failed for {desc}: {why}\n{src}"
                break
            extra["real_suspensions_validated"] += len(obs)
            extra["code_objects"] += 1
            _lowlevel.inspect_frame = model  # the ctypes half is replaced by the model
            results: List[Dict[str, Any]] = []

            def harness(e: Engine) -> None:
                r = symbolic_leg(e, P, model, saved)
                if r is not None:
                    results.append(r)

            eng = Engine(max_seconds=120)
            try:
                eng.explore(harness)
            finally:
                _lowlevel.inspect_frame = saved
            tot["paths"] += eng.paths
            tot["queries"] += eng.queries
            tot["solver_time"] += eng.solver_time
            tot["path_exceptions"] = tot.get("path_exceptions", 0) + eng.n_exceptions
            tot.setdefault("path_exception_samples", []).extend(eng.exceptions[:2])
            exhausted = exhausted and eng.exhausted
            inconc += eng.inconclusive
            extra["observation_points"] += len(results)
            if len(samples) < 1 and results:
                samples.append({"program": desc, "suspension_offsets": sorted({r["lasti"] for r in results})})
            for r in results:
                if not r["ok"]:
                    if r["f2"]:
                        extra["f2_counterexamples"] += 1
                    key = (r["f2"], r["why"][:30])
                    if sum(1 for c in cex if (c["f2"], c["why"][:30]) == key) < 2 and sum(1 for c in cex if c["f2"] == r["f2"]) < 3:
                        cex.append({"desc": desc, "src": src, "lasti": r["lasti"], "why": r["why"], "f2": r["f2"]})
    finally:
        _lowlevel.inspect_frame = saved
    direct = [c for c in cex if c.get("real_suspension")]
    if noslice:
        crash = crash or noslice
        if not direct:
            return {"shard": sh["name"], "crash": noslice}
    if crash and direct:
        return {"paths": tot["paths"], "queries": tot["queries"], "solver_time": tot["solver_time"], "exhausted": False,
                "inconclusive": ["stopped at a real-suspension violation: " + crash[:160]], "shard": sh["name"], "cex": direct, "samples": samples,
                "extra": extra, "reached": extra["observation_points"]}
    if crash:
        return {"shard": sh["name"], "crash": crash}
    return {"paths": tot["paths"], "queries": tot["queries"], "solver_time": tot["solver_time"], "exhausted": exhausted,
            "path_exceptions": tot.get("path_exceptions", 0), "path_exception_samples": tot.get("path_exception_samples", [])[:3],
            "inconclusive": sorted(set(inconc))[:3], "shard": sh["name"], "cex": cex, "samples": samples, "extra": extra,
            "reached": extra["observation_points"]}


def chunks(tier: str, seed: int, n: int) -> List[Dict[str, Any]]:
    from vlib.bc import progs

    allp = list(progs.corpus(tier, seed))
    # as-target forms and layouts (incl. targets and with lines that need EXTENDED_ARG): the same programs C08 uses
    from harness import c08 as _c08

    allp += [p for p in _c08.target_corpus(tier) if not any((t or "") in _c08.UNSUPPORTED_TARGETS for t in p[0].get("targets", []))]
    stride = int(os.environ.get("VERIF_CORPUS_STRIDE", "1") or 1)
    allp = allp[seed % stride::stride]
    out = [{"name": f"chunk{k}", "programs": allp[k::n]} for k in range(n)]
    return [c for c in out if c["programs"]]


def run(rep: Any, tier: str, seed: int) -> None:
    import z3
    from vlib.bc import progs

    rep.engine_name = f"symx (z3 {z3.get_version_string()}), Int mode for f_lasti, BV(40) for the table lemma"
    rep.functions = FUNCTIONS
    rep.bounds = {"interpreter": sys.version.split()[0], "corpus": f"{tier}: contexts {progs.CONTEXTS} x tails {progs.TAILS} x kinds {progs.KINDS} x sync/async x 1-2 items x continuation"
                  + (" (full product)" if tier == "thorough" else " (every context x tail pair, other dimensions rotating)"),
                  "f_lasti": "every reachable suspension offset of each code object",
                  "lemma": "quick: 1-2 table entries, fields of 1-2 varint bytes; thorough: L1 1-2 entries x 1-3 bytes and 3 entries x 1 byte, L2 1 entry x 1-3 bytes, 2 entries x 1-2 bytes, 3 entries x 1 byte; symbolic 6-bit payloads; symbolic instruction index; thorough: every unsat answer of the 1-entry (and 2-entry L2) shards re-decided by cvc5"}
    rep.outside = ["the ctypes half of inspect_frame (struct layout, stacktop, py_object reads) -- replaced by a model validated against the real interpreter",
                   "CPython 3.9/3.10/3.11 (not the interpreter of /venv; 3.9/3.10 lack dependencies in this sandbox)",
                   "programs outside the grammar", "match patterns beyond literal/wildcard"]
    rep.stubs = ["FakeFrame(f_code=real code object, f_lasti symbolic)", "inspect_frame model: blocks from the REAL chain walk (AST slice), stack predicted by the abstract interpreter with dummy managers' bound exit methods"]
    rep.assumptions = ["L2 assumes CPython's table invariant: entries sorted, disjoint, non-empty, handler after its range",
                       "abstract interpreter + stack model validated against every real suspension of every program in the run (mismatch = exit 2)"]
    # divergence canary first (a diverging decoder/chain walk would hang every worker)
    from vlib.bc import canary

    st = canary.run()
    if st != "ok":
        rep.add_counts(OB_MAIN, 1, 1, status="failed")
        rep.counterexample(OB_MAIN, {"canary": True, "why": st}, "real analysis on a trivial suspended generator: " + st)
        return
    # lemma shards and corpus chunks share one pool
    import itertools

    jobs: List[Tuple[str, Any]] = []
    # lemma sizes: (entries, max varint bytes per field, cross-check unsat answers with cvc5)
    if os.environ.get("VERIF_LEG"):
        sizes = {"L1": [(1, 2, False)], "L2": [(1, 2, False)]}  # same source on both interpreters: token lemma run only
    elif tier == "quick":
        sizes = {"L1": [(1, 2, False), (2, 2, False)], "L2": [(1, 2, False), (2, 2, False)]}
    else:
        sizes = {"L1": [(1, 3, True), (2, 3, False), (3, 1, False)], "L2": [(1, 3, True), (2, 2, True), (3, 1, False)]}
    for which, lst in sizes.items():
        for (E, NB, cv) in lst:
            if E == 1:
                jobs.append(("_lemma_shard", {"entries": E, "nbytes": NB, "which": which, "cvc5": cv, "budget": 1500}))
            else:
                for fixed in itertools.product(range(1, NB + 1), repeat=4):
                    jobs.append(("_lemma_shard", {"entries": E, "nbytes": NB, "which": which, "fixed0": list(fixed), "cvc5": cv, "budget": 1500}))
    for c in chunks(tier, seed, 32 if tier == "quick" else 64):
        jobs.append(("_main_shard", c))
    res = par.run_mixed("harness.c01", jobs)
    lem = [r for fn, r in res if fn == "_lemma_shard"]
    for c in par.fold(rep, OB_L1, [r for r in lem if str(r.get("shard", "")).startswith("L1") or r.get("shard", {}) == {} or (isinstance(r.get("shard"), dict) and r["shard"].get("which") == "L1")]):
        rep.counterexample(OB_L1, c, c["why"])
    for c in par.fold(rep, OB_L2, [r for r in lem if str(r.get("shard", "")).startswith("L2") or (isinstance(r.get("shard"), dict) and r["shard"].get("which") == "L2")]):
        rep.counterexample(OB_L2, c, c["why"])
    for c in par.fold(rep, OB_MAIN, [r for fn, r in res if fn == "_main_shard"]):
        rep.counterexample(OB_MAIN, c, c["why"])


def replay(case: Dict[str, Any]) -> Dict[str, Any]:
    """No stub, no proxy: run the program for real over all decision scripts / throw points and
    compare the real contexts_active_in_frame with the event log at the counterexample's offset."""
    if "lemma" in case:
        return replay_lemma(case)
    if case.get("canary"):
        from vlib.bc import canary

        st = canary.run()
        return {"status": "reproduces" if st != "ok" else "not-reproduced", "detail": st}
    from vlib.bc import dyn

    desc, src, lasti = case["desc"], case["src"], case["lasti"]
    P = analyse_program(desc, src)
    obs = dyn.observe_all(src, desc["kind"])
    at = [ob for ob in obs if ob.get("lasti") == lasti]
    if not at:
        return {"status": "unreachable", "detail": "no real run suspends at this offset"}
    for ob in at:
        ob["async_of"] = {mid: a for (mid, _, _, a) in P["wmap"].values()}
        dev = real_deviation(ob)
        if dev:
            return {"status": "reproduces", "detail": {"script": ob["script"], "throw_at": ob["throw_at"], "step": ob["step"], "deviation": dev}}
    return {"status": "not-reproduced", "detail": f"{len(at)} real suspensions at this offset all agree with the event log"}


def classify(case: Dict[str, Any], out: Dict[str, Any]) -> Optional[str]:
    if case.get("f2"):
        return "F2"
    return None


def confirm_finding(fid: str) -> bool:
    if fid != "F2":
        return False
    from vlib.bc import progs

    src = progs.build("coro", "none", True, 1, "if_return_const", "nothing")
    assert src
    from vlib.bc import dyn

    P = analyse_program({"kind": "coro"}, src)
    for ob in dyn.observe_all(src, "coro"):
        ob["async_of"] = {mid: a for (mid, _, _, a) in P["wmap"].values()}
        if real_deviation(ob):
            return True
    return False
