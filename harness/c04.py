"""C04 -- running-stack extraction and StackSlice slicing equal slices of the true stack.

Obligation A (symx, stub frames): the real generator body of
_glue.unwrap_stackslice (its __wrapped__), with greenlet_getcurrent /
get_true_caller / sys._current_frames / threading.get_ident replaced by a
model of one thread stack split into nested greenlets (+ one foreign thread).
Symbolic: n, cut points, outer, inner, and `limit` as an UNBOUNDED z3 Int that
flows into the real `len(frames) > spec.limit` and the two `del frames[...]`.

Obligation B (symx choices, REAL frames and REAL greenlets, no stub): every
entry point (extract(StackSlice), extract_since, extract_until with int and
frame limits) from every depth / split / anchor combination; oracle = manual
f_back / greenlet.parent walk.  B is also the replay of A's counterexamples.
"""
from __future__ import annotations

import os

import sys
import threading
import types
from typing import Any, Dict, List, Optional

import stackscope
from stackscope import _glue, StackSlice
from vlib import par
from vlib.symx import Engine, SInt, Violation

OB_A = "C04.slice-arithmetic(stub stack, unbounded limit)"
OB_B = "C04.entry-points(real frames+greenlets)"

FUNCTIONS = [
    "stackscope._glue.unwrap_stackslice.__wrapped__ (incl. try_from, limit trimming)",
    "stackscope._glue.get_true_caller (obligation B)",
    "stackscope._extract.extract_since", "stackscope._extract.extract_until",
    "stackscope._extract.extract / extract_iter (obligation B)",
]


# ------------------------------------------------------------------ part A
class SF:
    """Stub frame: the analysed function reads only f_back and identity."""

    __slots__ = ("f_back", "name")

    def __init__(self, name: str):
        self.name = name
        self.f_back: Optional["SF"] = None

    def __repr__(self) -> str:
        return f"<SF {self.name}>"


class SG:
    def __init__(self, parent: Optional["SG"]):
        self.parent = parent
        self.gr_frame: Optional[SF] = None

    def __bool__(self) -> bool:
        return True


def build_model(n: int, cuts: List[bool]):
    """L[0] outermost .. L[n-1] = caller.  cuts[k] True => greenlet boundary
    between L[k] and L[k+1] (L[k+1] is the outermost frame of a child greenlet)."""
    L = [SF(f"f{k}") for k in range(n)]
    glets = [SG(None)]
    for k in range(n):
        if k > 0 and cuts[k - 1]:
            # L[k-1] is where the parent greenlet is suspended (its gr_frame)
            glets[-1].gr_frame = L[k - 1]
            glets.append(SG(glets[-1]))
            L[k].f_back = None
        elif k > 0:
            L[k].f_back = L[k - 1]
    return L, glets


class _FakeSysMod:
    def __init__(self, real: Any, frames: Dict[int, Any]):
        self._real = real
        self._frames = frames
        self.implementation = real.implementation

    def _current_frames(self) -> Dict[int, Any]:
        return dict(self._frames)

    def __getattr__(self, k: str) -> Any:
        return getattr(self._real, k)


def run_real_slicer(L: List[SF], glets: List[SG], other: List[SF], outer: Any, inner: Any, limit: Any):
    """Run the real generator body with the environment stubs installed."""
    fn = _glue.unwrap_stackslice.__wrapped__  # the undecorated generator function
    g = fn.__globals__
    saved = {k: g[k] for k in ("greenlet_getcurrent", "get_true_caller", "sys", "threading")}

    class _Thr:
        @staticmethod
        def get_ident() -> int:
            return 1

    frames_by_thread = {1: L[-1]}
    if other:
        frames_by_thread[2] = other[-1]
    g["greenlet_getcurrent"] = lambda: glets[-1]
    g["get_true_caller"] = lambda: L[-1]
    g["sys"] = _FakeSysMod(sys, frames_by_thread)
    g["threading"] = _Thr
    out: List[Any] = []
    err: Optional[BaseException] = None
    try:
        spec = StackSlice(outer=outer, inner=inner, limit=limit)
        it = fn(spec)
        try:
            for f in it:
                out.append(f)
        except Exception as ex:
            err = ex
    finally:
        g.update(saved)
    return out, err


def expected_slice(L: List[Any], o: Optional[int], i: Optional[int], limit: Optional[int]) -> List[Any]:
    lo = 0 if o is None else o
    hi = len(L) - 1 if i is None else i
    seg = L[lo: hi + 1]
    if limit is not None and len(seg) > limit:
        if i is None and o is not None:
            seg = seg[:limit]
        else:
            seg = seg[len(seg) - limit:]
    return seg


def _a_shard(sh: Dict[str, Any]) -> Dict[str, Any]:
    n = sh["n"]
    cex: List[Dict[str, Any]] = []
    samples: List[Any] = []
    reached = [0]

    def harness(e: Engine) -> None:
        cuts = [e.flag(f"cut{k}") for k in range(n - 1)]
        L, glets = build_model(n, cuts)
        where = e.choice("outer_where", 3)  # 0 None, 1 on this stack, 2 on a foreign thread
        other: List[SF] = []
        o: Optional[int] = None
        if where == 1:
            o = e.choice("outer", n)
        elif where == 2:
            m = 1 + e.choice("other_len", 3)
            other = [SF(f"t{k}") for k in range(m)]
            for k in range(1, m):
                other[k].f_back = other[k - 1]
            o = e.choice("outer_other", m)
        has_inner = e.flag("has_inner") if where != 2 else False
        i: Optional[int] = None
        if has_inner:
            i = e.choice("inner", n)
            if o is not None and o > i:
                e.assume(False)  # outer must be an (indirect) caller of inner
        lim: Any = None
        if e.flag("has_limit"):
            lim = e.int("limit", 1, None)  # every integer >= 1
        stack = other if where == 2 else L
        outer = stack[o] if o is not None else None
        inner = L[i] if i is not None else None
        got, err = run_real_slicer(L, glets, other, outer, inner, lim)
        # the oracle compares with the symbolic limit too (never realise an
        # unbounded value: that would enumerate the integers)
        exp = expected_slice(stack, o, i, lim)
        reached[0] += 1
        bad = err is not None or [id(x) for x in got] != [id(x) for x in exp]
        limv = e.model().get("limit") if lim is not None else None
        if len(samples) < 2:
            samples.append({"n": n, "cuts": cuts, "outer": [where, o], "inner": i, "limit(one model value)": limv,
                            "result": [f.name for f in got]})
        if bad:
            if len(cex) < 4:
                cex.append({"n": n, "cuts": cuts, "where": where, "outer": o, "inner": i, "limit": limv,
                            "other_len": len(other), "why": f"got {[f.name for f in got]} err={err!r}, expected {[f.name for f in exp]}"})

    eng = Engine(max_seconds=sh.get("budget", 240) * (6 if os.environ.get("VERIF_TIER_EFFECTIVE") == "thorough" else 1))
    eng.explore(harness)
    return par.shard_result(eng, shard=f"n={n}", cex=cex, samples=samples, reached=reached[0])


# ------------------------------------------------------------------ part B
def true_stack(start: types.FrameType) -> List[types.FrameType]:
    """Manual walk: f_back links, continuing through greenlet parents."""
    import greenlet

    out: List[types.FrameType] = []
    g: Any = greenlet.getcurrent()
    cur: Optional[types.FrameType] = start
    while g is not None:
        while cur is not None:
            out.append(cur)
            cur = cur.f_back
        g = g.parent
        if g is not None:
            cur = g.gr_frame
    out.reverse()
    return out


class Scenario:
    def __init__(self, n: int, cuts: List[bool], kinds: List[int], probe: Any):
        self.n, self.cuts, self.kinds, self.probe = n, cuts, kinds, probe
        self.frames: List[types.FrameType] = []
        self.result: Any = None


def _descend(sc: Scenario, k: int) -> Any:
    """Level k of the scenario; kinds[k]: 0 plain call, 1 running generator, 2 running coroutine."""
    kind = sc.kinds[k]
    if kind == 0:
        return _plain(sc, k)
    if kind == 1:
        for v in _genlevel(sc, k):
            return v
    co = _corolevel(sc, k)
    try:
        co.send(None)
    except StopIteration as ex:
        return ex.value


def _body(sc: Scenario, k: int, frame: types.FrameType) -> Any:
    sc.frames.append(frame)
    if k == sc.n - 1:
        return _call_probe(sc)
    if sc.cuts[k]:
        import greenlet

        g = greenlet.greenlet(lambda: _descend(sc, k + 1))
        return g.switch()
    return _descend(sc, k + 1)


def _plain(sc: Scenario, k: int) -> Any:
    return _body(sc, k, sys._getframe(0))


def _genlevel(sc: Scenario, k: int) -> Any:
    yield _body(sc, k, sys._getframe(0))


async def _corolevel(sc: Scenario, k: int) -> Any:
    return _body(sc, k, sys._getframe(0))


def real_case(n: int, cuts: List[bool], kinds: List[int], entry: int, o: Optional[int], i: Optional[int],
              limit: Optional[int], limit_frame: Optional[int], cut_before_probe: bool = False,
              lookalike_module: bool = False) -> Dict[str, Any]:
    """entry: 0 extract(StackSlice(outer,inner,limit)); 1 extract_since(outer);
    2 extract_until(inner, limit=int|None); 3 extract_until(inner, limit=frame)."""

    def probe(sc: Scenario) -> Dict[str, Any]:
        me = sys._getframe(0)
        sc.frames.append(me)  # anchor index n: the very frame that calls into stackscope
        full = true_stack(me)
        # the scenario's own frames are the tail of the true stack before the probe
        base = len(full) - 1 - sc.n
        if [id(f) for f in full[base: base + sc.n]] != [id(f) for f in sc.frames]:
            # a greenlet's run lambda sits between levels: locate by identity
            pass
        idx = {id(f): j for j, f in enumerate(full)}
        fo = sc.frames[o] if o is not None else None
        fi = sc.frames[i] if i is not None else None
        try:
            if entry == 0:
                st = stackscope.extract(StackSlice(outer=fo, inner=fi, limit=limit), with_contexts=False)
                lo = idx[id(fo)] if fo is not None else 0
                hi = idx[id(fi)] if fi is not None else len(full) - 1
                exp = full[lo: hi + 1]
                if limit is not None and len(exp) > limit:
                    exp = exp[:limit] if (fi is None and fo is not None) else exp[len(exp) - limit:]
            elif entry == 1:
                st = stackscope.extract_since(fo, with_contexts=False)
                exp = full[(idx[id(fo)] if fo is not None else 0):]
            elif entry == 2:
                assert fi is not None
                st = stackscope.extract_until(fi, limit=limit, with_contexts=False)
                exp = full[: idx[id(fi)] + 1]
                if limit is not None and len(exp) > limit:
                    exp = exp[len(exp) - limit:]
            else:
                assert fi is not None and limit_frame is not None
                fl = sc.frames[limit_frame]
                st = stackscope.extract_until(fi, limit=fl, with_contexts=False)
                exp = full[idx[id(fl)]: idx[id(fi)] + 1]
        except Exception as ex:
            return {"ok": False, "why": f"raised {ex!r}"}
        got = [f.pyframe for f in st.frames]
        mine = [f for f in st.frames if (f.modname or "").startswith("stackscope.") and not (f.modname or "").startswith("stackscope._tests.")]
        ok = [id(f) for f in got] == [id(f) for f in exp] and st.error is None and not mine
        return {"ok": ok, "why": f"got {[f.f_code.co_name + ':' + str(idx.get(id(f))) for f in got]} error={st.error!r} "
                f"expected indices {[idx[id(f)] for f in exp]} of {len(full)}; stackscope frames leaked={len(mine)}"}

    if lookalike_module:
        # the function that calls into stackscope lives in a USER module whose name merely starts with "stackscope"
        # (stackscope_user_helpers): its frames are the caller's, not the library's
        import types as _types

        probe = _types.FunctionType(probe.__code__, dict(probe.__globals__, __name__="stackscope_user_helpers"), "probe",
                                    probe.__defaults__, probe.__closure__)
    sc = Scenario(n, cuts, kinds, probe)
    sc.cut_before_probe = cut_before_probe
    if n == 0:
        return _call_probe(sc)
    return _descend(sc, 0)


def _call_probe(sc: "Scenario") -> Any:
    if getattr(sc, "cut_before_probe", False):
        import greenlet

        return greenlet.greenlet(lambda: sc.probe(sc)).switch()
    return sc.probe(sc)


def _b_shard(sh: Dict[str, Any]) -> Dict[str, Any]:
    n, tier = sh["n"], sh["tier"]
    cex: List[Dict[str, Any]] = []
    samples: List[Any] = []
    reached = [0]

    def harness(e: Engine) -> None:
        cuts = [e.flag(f"cut{k}") for k in range(n - 1)]
        if tier == "quick":
            kk = e.choice("kinds", 3)
            kinds = [kk if k == n - 1 or k == 0 else 0 for k in range(n)]
        else:
            kinds = [sh["kind0"] if (k == 0 and sh.get("kind0") is not None) else e.choice(f"kind{k}", 3) for k in range(n)]
        entry = sh["entry"] if sh.get("entry") is not None else e.choice("entry", 4)
        o = i = lim = lf = None
        # anchors: the n scenario levels and (index n) the frame that itself calls stackscope
        if entry in (0, 1) and e.flag("has_outer"):
            o = e.choice("outer", n + 1)
        if entry == 0 and e.flag("has_inner"):
            i = e.choice("inner", n + 1)
        if entry in (2, 3):
            i = e.choice("inner", n + 1)
        if o is not None and i is not None and o > i:
            e.assume(False)
        if entry in (0, 2) and e.flag("has_limit"):
            lim = 1 + e.choice("limit", n + 2)
        if entry == 3:
            lf = e.choice("limit_frame", n + 1)
            if lf > i:
                e.assume(False)
            # frame-valued limits are restricted to frames reachable by f_back
            if any(cuts[lf:min(i, n - 1)]):
                e.assume(False)
        look = e.flag("caller_in_a_module_named_like_the_library") if entry in (0, 1) else False
        res = real_case(n, cuts, kinds, entry, o, i, lim, lf, lookalike_module=look)
        reached[0] += 1
        if len(samples) < 1:
            samples.append({"n": n, "cuts": cuts, "kinds": kinds, "entry": entry, "outer": o, "inner": i, "limit": lim, "limit_frame": lf})
        if not res["ok"] and len(cex) < 4:
            cex.append({"real": True, "n": n, "cuts": cuts, "kinds": kinds, "entry": entry, "outer": o, "inner": i, "lookalike": look,
                        "limit": lim, "limit_frame": lf, "why": res["why"]})

    eng = Engine(max_seconds=sh.get("budget", 240) * (6 if os.environ.get("VERIF_TIER_EFFECTIVE") == "thorough" else 1))
    eng.explore(harness)
    return par.shard_result(eng, shard=f"real n={n}" + (f" entry={sh['entry']} kind0={sh['kind0']}" if sh.get("entry") is not None else ""), cex=cex, samples=samples, reached=reached[0])


# --------------------------------------------------------------- interface
def run(rep: Any, tier: str, seed: int) -> None:
    import z3

    rep.engine_name = f"symx (z3 {z3.get_version_string()})"
    rep.functions = FUNCTIONS
    NA = 5 if tier == "quick" else 7
    NB = 3 if tier == "quick" else 4
    rep.bounds = {"A.frames": f"1..{NA}", "A.greenlet_cuts": "every subset", "A.limit": "None or ANY integer >= 1 (unbounded z3 Int)",
                  "A.foreign_thread_stack": "1..3 frames", "B.depth": f"1..{NB}", "B.level_kinds": "plain / running generator / running coroutine",
                  "B.limit": "None, 1..n+2", "B.entries": "extract(StackSlice), extract_since, extract_until(int), extract_until(frame)"}
    rep.outside = ["PyPy's cyclic f_back", "racing threads (the _current_frames branch is run against a static stub)",
                   "outer not an ancestor of inner (invalid input)", "stacks deeper than the bound"]
    rep.stubs = ["SF/SG stub frames and greenlets (A): CPython greenlet semantics per _glue.py comments: running greenlet's outermost frame has f_back None, a suspended parent exposes its innermost frame as gr_frame",
                 "sys._current_frames / threading.get_ident (A): static dict of two threads"]
    res = par.run_shards("harness.c04", "_a_shard", [{"n": n} for n in range(1, NA + 1)])
    for c in par.fold(rep, OB_A, res):
        rep.counterexample(OB_A, c, c["why"])
    bsh: List[Dict[str, Any]] = [{"n": n, "tier": tier} for n in range(1, NB + 1)]
    if tier == "thorough":   # the deep levels are split so that every shard finishes within its budget
        bsh = [s_ for s_ in bsh if s_["n"] < 3] + [dict(s_, entry=en, kind0=k0) for s_ in bsh if s_["n"] >= 3 for en in range(4) for k0 in range(3)]
    res = par.run_shards("harness.c04", "_b_shard", bsh)
    for c in par.fold(rep, OB_B, res):
        rep.counterexample(OB_B, c, c["why"])
    if tier == "thorough":
        crosshair_leg(rep)


OB_X = "C04.slice-arithmetic [second engine: CrossHair contract, n<=4, unbounded limit]"


def crosshair_leg(rep: Any) -> None:
    """Thorough tier: the same obligation through CrossHair 0.0.110 (harness/xh_c04.py)."""
    import os
    import re
    import subprocess
    import time

    exe = os.path.join(os.path.dirname(sys.executable), "crosshair")
    if not os.path.exists(exe):
        rep.mark_inconclusive(OB_X, "crosshair not installed in the overlay venv")
        return
    t0 = time.monotonic()
    try:
        r = subprocess.run([exe, "check", "--report_all", "--per_condition_timeout", "400", "harness/xh_c04.py"],
                           capture_output=True, text=True, timeout=1200, cwd=os.path.dirname(os.path.dirname(os.path.abspath(__file__))))
    except subprocess.TimeoutExpired:
        rep.mark_inconclusive(OB_X, "CrossHair timed out")
        return
    out = r.stdout + r.stderr
    main_ok = re.search(r"xh_c04.py:\d+: info: Confirmed over all paths", out) is not None
    twin_violated = "slice_matches__reach" in out and "error: false when calling slice_matches__reach" in out
    m = re.search(r"error: (?:false|\w+Error[^\n]*) when calling slice_matches\(([^)]*)\)", out)
    if m:
        args = [a.strip() for a in m.group(1).split(",")]
        try:
            n, c0, c1, c2, outer, inner, has_limit, limit = (int(args[0]), args[1] == "True", args[2] == "True", args[3] == "True",
                                                             int(args[4]), int(args[5]), args[6] == "True", int(args[7]))
            case = {"n": n, "cuts": [c0, c1, c2][: n - 1], "where": 0 if outer < 0 else 1, "outer": None if outer < 0 else outer,
                    "inner": None if inner < 0 else inner, "limit": limit if has_limit else None, "other_len": 0,
                    "why": "CrossHair counterexample: " + m.group(0)}
            rep.add_counts(OB_X, 1, 1, time.monotonic() - t0, status="failed")
            rep.counterexample(OB_X, case, case["why"])
            return
        except Exception:
            pass
    if main_ok and twin_violated:
        rep.add_counts(OB_X, 1, 1, time.monotonic() - t0, status="discharged", reached=1)
        rep.extra["crosshair"] = "Confirmed over all paths; reachability twin violated"
    else:
        rep.add_counts(OB_X, 1, 1, time.monotonic() - t0, status="inconclusive")
        rep.inconclusive.append(f"{OB_X}: {out.strip().splitlines()[-2:]}")


def replay(case: Dict[str, Any]) -> Dict[str, Any]:
    """Real frames, real greenlets, no stub."""
    if case.get("real"):
        r = real_case(case["n"], case["cuts"], case["kinds"], case["entry"], case["outer"], case["inner"],
                      case["limit"], case["limit_frame"], lookalike_module=bool(case.get("lookalike")))
        return {"status": "reproduces" if not r["ok"] else "not-reproduced", "detail": r}
    n, cuts = case["n"], case["cuts"]
    if case["where"] == 2:
        return _replay_foreign(case)
    lim = case["limit"]
    # in the stub model L[n-1] is the frame that calls into stackscope: in the real scenario that is
    # the probe frame (anchor index = number of levels), so n stub frames = n-1 levels + the probe
    r = real_case(n - 1, cuts[: max(n - 2, 0)] if n >= 2 else [], [0] * (n - 1), 0, case["outer"], case["inner"], lim, None,
                  cut_before_probe=(cuts[n - 2] if n >= 2 else False))
    return {"status": "reproduces" if not r["ok"] else "not-reproduced", "detail": r}


def _replay_foreign(case: Dict[str, Any]) -> Dict[str, Any]:
    m, o, lim = case["other_len"], case["outer"], case["limit"]
    frames: List[types.FrameType] = []
    ready, done = threading.Event(), threading.Event()

    def lvl(k: int) -> None:
        frames.append(sys._getframe(0))
        if k == m - 1:
            ready.set()
            done.wait(10)
        else:
            lvl(k + 1)

    t = threading.Thread(target=lvl, args=(0,), daemon=True)
    t.start()
    ready.wait(10)
    try:
        st = stackscope.extract(StackSlice(outer=frames[o], limit=lim), with_contexts=False)
        got = [f.pyframe for f in st.frames]
        full = frames + []
        # frames inward of the last level (Event.wait internals) belong to the true stack too
        inner = sys._current_frames()[t.ident]
        tail: List[types.FrameType] = []
        cur: Any = inner
        while cur is not None and cur is not frames[-1]:
            tail.append(cur)
            cur = cur.f_back
        full = frames + tail[::-1]
        exp = full[o:]
        if lim is not None and len(exp) > lim:
            exp = exp[:lim]
        ok = [id(f) for f in got] == [id(f) for f in exp]
        return {"status": "reproduces" if not ok else "not-reproduced", "detail": {"got": len(got), "exp": len(exp)}}
    finally:
        done.set()
        t.join(5)


def classify(case: Dict[str, Any], out: Dict[str, Any]) -> Optional[str]:
    return None
