"""C17 -- library glue is installed exactly once, in time, module-provided beats built-in.

Engine: symx.  Real code: _glue.add_glue_as_needed (reached through the real
stackscope.extract), _glue.builtin_glue (decorator, both branches).
Symbolic: the history (sequence of add / remove / re-add same object / add a
fresh object under a removed name / extract / late built-in registration) and
the glue kind of each module name.  `_glue.sys` is rebound to a private
namespace whose `modules` dict the harness owns (a path must not be disturbed
by the engine's own lazy imports); replay uses the real sys.modules.
Thread schedules (2..4 threads at every preemption point) are OUTSIDE the
bound: that needs source hooks plus a runtime scheduler.
"""
from __future__ import annotations

import os

import sys
import types
import warnings
from typing import Any, Dict, List, Optional, Tuple

import stackscope
from stackscope import _glue
from vlib import par
from vlib.symx import Engine

OB = "C17.glue-once-in-time(histories)"
FUNCTIONS = ["stackscope._glue.add_glue_as_needed", "stackscope._glue.builtin_glue", "stackscope._extract.extract_iter (call site)"]
KINDS = ["module", "builtin", "both", "neither", "module_raises", "builtin_raises", "both_module_raises"]
NAMES = ["verif_fake_a", "verif_fake_b", "verif_fake_c"]


class _FakeSys:
    def __init__(self, modules: Dict[str, Any]):
        self.modules = modules

    def __getattr__(self, k: str) -> Any:
        return getattr(sys, k)


class Sim:
    """One history, executed against the real glue code, with the monitor."""

    def __init__(self, kinds: List[int], use_real_sys: bool = False):
        self.kinds = [KINDS[k] for k in kinds]
        self.use_real = use_real_sys
        self.events: List[Tuple[int, str, str, int]] = []  # (extract#, 'module'|'builtin', name, incarnation)
        self.incarnation = [0, 0, 0]
        self.objs: List[Optional[types.ModuleType]] = [None, None, None]
        self.appeared: Dict[int, int] = {}
        self.step = 0
        self.extract_no = 0
        self.warnings: List[str] = []
        self.registered: set = set()
        self.last_scan_len: Optional[int] = 0
        self.set_changed_since_scan = False
        self.f4_signature = False

    # -- environment
    def __enter__(self) -> "Sim":
        self.saved_sys = _glue.sys
        self.cache = _glue.add_glue_as_needed.__kwdefaults__["_sys_modules_len_cache"]
        self.saved_cache = self.cache[0]
        if self.use_real:
            self.modules = sys.modules
            for i in range(3):
                sys.modules[f"verif_filler{i}"] = types.ModuleType(f"verif_filler{i}")
            _glue.add_glue_as_needed()  # settle whatever the real process has pending
        else:
            self.modules = {f"verif_filler{i}": types.ModuleType(f"verif_filler{i}") for i in range(3)}
            _glue.sys = _FakeSys(self.modules)  # type: ignore[assignment]
            self.cache[0] = 0
            _glue.add_glue_as_needed()  # first scan of the fillers, as after a first extract
        self.last_scan_len = len(self.modules)
        return self

    def __exit__(self, *a: Any) -> None:
        _glue.sys = self.saved_sys
        for n in NAMES:
            _glue.builtin_glue_pending.pop(n, None)
            if self.use_real:
                sys.modules.pop(n, None)
        if self.use_real:
            for i in range(3):
                sys.modules.pop(f"verif_filler{i}", None)
        self.cache[0] = self.saved_cache if not self.use_real else 0

    # -- glue functions
    def _mk(self, which: str, i: int, raises: bool):
        inc = self.incarnation[i]

        def fn() -> None:
            self.events.append((self.extract_no, which, NAMES[i], inc))
            if raises:
                raise RuntimeError(f"{which} glue of {NAMES[i]} fails")

        return fn

    def register_builtin(self, i: int) -> None:
        kind = self.kinds[i]
        if i in self.registered or kind not in ("builtin", "both", "builtin_raises", "both_module_raises"):
            return
        self.registered.add(i)
        fn = self._mk("builtin", i, kind == "builtin_raises")
        try:
            _glue.builtin_glue(NAMES[i])(fn)
        except RuntimeError:
            # registration while the module is already imported runs the glue at once;
            # an exception there propagates to the registering code (import time), not to extract
            pass

    # -- operations
    def add(self, i: int, fresh: bool) -> bool:
        if NAMES[i] in self.modules:
            return False
        if fresh or self.objs[i] is None:
            self.incarnation[i] += 1
            m = types.ModuleType(NAMES[i])
            kind = self.kinds[i]
            if kind in ("module", "both", "module_raises", "both_module_raises"):
                m._stackscope_install_glue_ = self._mk("module", i, kind in ("module_raises", "both_module_raises"))  # type: ignore[attr-defined]
            self.objs[i] = m
        self.modules[NAMES[i]] = self.objs[i]
        self.appeared[id(self.objs[i])] = self.step
        self.set_changed_since_scan = True
        return True

    def remove(self, i: int) -> bool:
        if NAMES[i] not in self.modules:
            return False
        del self.modules[NAMES[i]]
        self.set_changed_since_scan = True
        return True

    def extract(self) -> Optional[str]:
        self.extract_no += 1
        scan_expected_by_len_rule = len(self.modules) != self.last_scan_len
        with warnings.catch_warnings(record=True) as w:
            warnings.simplefilter("always")
            try:
                st = stackscope.extract(42, with_contexts=False)
            except Exception as ex:
                return f"extract raised {ex!r}"
        glue_w = [x for x in w if issubclass(x.category, RuntimeWarning) and "glue" in str(x.message)]
        self.warnings.extend(str(x.message) for x in glue_w)
        if st.error is not None:
            return f"extract recorded error {st.error!r}"
        why = self.monitor(len(glue_w))
        if why and not scan_expected_by_len_rule and self.set_changed_since_scan:
            self.f4_signature = True
        if scan_expected_by_len_rule:
            self.last_scan_len = len(self.modules)
            self.set_changed_since_scan = False
        return why

    def monitor(self, n_warn_this_extract: int) -> Optional[str]:
        # never twice
        seen: Dict[Tuple[str, str, int], int] = {}
        for (_, which, name, inc) in self.events:
            key = (which, name, inc if which == "module" else 0)
            seen[key] = seen.get(key, 0) + 1
            if seen[key] > 1:
                return f"{which} glue of {name} ran twice"
        # never both kinds for one module in one scan
        for en in range(1, self.extract_no + 1):
            by_name: Dict[str, set] = {}
            for (e, which, name, inc) in self.events:
                if e == en:
                    by_name.setdefault(name, set()).add(which)
            for name, kinds in by_name.items():
                if len(kinds) > 1:
                    return f"both module-provided and built-in glue ran for {name}"
        # in time: every module present since before this extract has its glue run
        expected_warn = 0
        for i, name in enumerate(NAMES):
            m = self.modules.get(name)
            if m is None or m is not self.objs[i]:
                continue
            kind = self.kinds[i]
            inc = self.incarnation[i]
            own = [ev for ev in self.events if ev[1] == "module" and ev[2] == name and ev[3] == inc]
            blt = [ev for ev in self.events if ev[1] == "builtin" and ev[2] == name]
            if kind in ("module", "both", "module_raises", "both_module_raises"):
                if len(own) != 1:
                    return f"module-provided glue of {name} (incarnation {inc}) has run {len(own)} times after an extract that started after it was imported"
                if kind in ("both", "both_module_raises") and any(ev[0] >= own[0][0] for ev in blt):
                    return f"built-in glue of {name} ran although the module provides its own"
            elif kind in ("builtin", "builtin_raises"):
                if i in self.registered and len(blt) != 1:
                    return f"built-in glue of {name} has run {len(blt)} times after an extract that started after it was imported"
            else:
                if own or blt:
                    return f"glue ran for {name} which has none"
        # raising glue -> exactly one warning each, in the extract where it ran
        raised_now = [ev for ev in self.events if ev[0] == self.extract_no and (
            (ev[1] == "module" and self.kinds[NAMES.index(ev[2])] in ("module_raises", "both_module_raises")) or
            (ev[1] == "builtin" and self.kinds[NAMES.index(ev[2])] == "builtin_raises"))]
        if len(raised_now) != n_warn_this_extract:
            return f"{len(raised_now)} glue function(s) raised in this extract but {n_warn_this_extract} warning(s) were emitted"
        return None


# ops: 0 extract; 1..3 add name; 4..6 remove name; 7..9 add fresh object under name; 10..12 late builtin registration;
# 13 remove an unrelated, already scanned module
def valid_ops(sim: Sim, early: bool, nn: int) -> List[int]:
    v = [0]
    for i in range(nn):
        present = NAMES[i] in sim.modules
        if not present:
            v.append(1 + i)
            if sim.objs[i] is not None:
                v.append(7 + i)
        else:
            v.append(4 + i)
        # built-in glue is registered while `import stackscope` runs, i.e. before any
        # extract can have happened; "late" only means "after the library was imported"
        pass
    # an already-scanned, unrelated module may disappear as well (op 13)
    if any(k.startswith("verif_filler") for k in sim.modules):
        v.append(13)
    for i in range(nn):
        if not early and sim.extract_no == 0 and i not in sim.registered and sim.kinds[i] in ("builtin", "both", "builtin_raises", "both_module_raises"):
            v.append(10 + i)
    return v


def apply_op(sim: Sim, op: int) -> Optional[str]:
    sim.step += 1
    if op == 0:
        return sim.extract()
    if op <= 3:
        assert sim.add(op - 1, fresh=False)
    elif op <= 6:
        assert sim.remove(op - 4)
    elif op <= 9:
        assert sim.add(op - 7, fresh=True)
    elif op == 13:
        k = next(k for k in sim.modules if k.startswith("verif_filler"))
        del sim.modules[k]
        sim.set_changed_since_scan = True
    else:
        sim.register_builtin(op - 10)
    return None


def run_history(kinds: List[int], ops: List[int], early_reg: bool, use_real: bool = False) -> Dict[str, Any]:
    with Sim(kinds, use_real) as sim:
        if early_reg:
            for i in range(3):
                sim.register_builtin(i)
        for op in ops + [0]:  # every history ends with an extract so the monitor sees the final state
            why = apply_op(sim, op)
            if why:
                return {"ok": False, "why": why, "f4": sim.f4_signature}
        return {"ok": True}


def _shard(sh: Dict[str, Any]) -> Dict[str, Any]:
    cex: List[Dict[str, Any]] = []
    samples: List[Any] = []
    L, nn, k0, early = sh["len"], sh["names"], sh["kind0"], sh["early"]

    def harness(e: Engine) -> None:
        kinds = [k0, 0, 0]
        for u in range(1, nn):
            kinds[u] = sh[f"kind{u}"] if sh.get(f"kind{u}") is not None else e.choice(f"kind{u}", len(KINDS))
        ops: List[int] = []
        with Sim(kinds) as sim:
            if early:
                for i in range(3):
                    sim.register_builtin(i)
            why = None
            for s_ in range(L + 1):
                if s_ == L:
                    op = 0
                else:
                    v = valid_ops(sim, early, nn)
                    op = v[e.choice(f"op{s_}", len(v))]
                ops.append(op)
                why = apply_op(sim, op)
                if why:
                    break
            f4 = sim.f4_signature
        if len(samples) < 1:
            samples.append({"kinds": [KINDS[k] for k in kinds], "ops": ops, "early_registration": early})
        if why:
            c = {"kinds": kinds, "ops": ops[:-1] if len(ops) == L + 1 else ops, "early": early, "why": why, "f4": f4}
            if sum(1 for x in cex if x["f4"] == c["f4"]) < 2:
                cex.append(c)

    eng = Engine(max_seconds=sh.get("budget", 300) * (6 if os.environ.get("VERIF_TIER_EFFECTIVE") == "thorough" else 1))
    eng.explore(harness)
    return par.shard_result(eng, shard=f"kind0={KINDS[k0]},early={early}" + "".join(f",kind{u}={KINDS[sh[f'kind{u}']]}" for u in (1, 2) if sh.get(f"kind{u}") is not None), cex=cex, samples=samples)


# ----------------------------------------------------------- two threads, glue that blocks
OB2 = "C17.two-threads(glue call parks while another thread starts extracting)"


def two_thread_case(kinds: List[int], park: int, third_thread: bool) -> Optional[str]:
    """Thread 1 extracts and parks INSIDE the glue function of module `park`; thread 2 (and 3)
    then start extracting.  Whenever an extraction returns, every module imported before it
    started must have its glue completed.  The schedule is forced through the (blocking) glue
    call itself, so no source hook is needed; it covers the preemption point 'inside a glue
    call' of add_glue_as_needed, not the others."""
    import threading
    import time

    parked, release = threading.Event(), threading.Event()
    completed: List[str] = []
    problems: List[str] = []
    with Sim(kinds) as sim:
        for i in range(2):
            sim.register_builtin(i)
        # replace the glue functions with ones that log completion (and park)
        def mk(i: int, which: str) -> Any:
            def fn() -> None:
                if i == park:
                    parked.set()
                    release.wait(20)
                completed.append(NAMES[i])
                sim.events.append((1, which, NAMES[i], 1))
            return fn

        for i in range(2):
            sim.add(i, fresh=False)
            kind = sim.kinds[i]
            if kind in ("module", "both"):
                sim.objs[i]._stackscope_install_glue_ = mk(i, "module")  # type: ignore[union-attr]
            if kind in ("builtin", "both"):
                _glue.builtin_glue_pending[NAMES[i]] = mk(i, "builtin")

        def worker(name: str) -> None:
            try:
                with warnings.catch_warnings():
                    warnings.simplefilter("ignore")
                    st = stackscope.extract(42, with_contexts=False)
                missing = [NAMES[i] for i in range(2) if NAMES[i] not in completed]
                if missing:
                    problems.append(f"{name}'s extract returned while glue of {missing} had not completed")
                if st.error is not None:
                    problems.append(f"{name}: error {st.error!r}")
            except BaseException as ex:  # noqa
                problems.append(f"{name} raised {ex!r}")

        t1 = threading.Thread(target=worker, args=("thread 1",))
        t1.start()
        if not parked.wait(10):
            release.set()
            t1.join(5)
            return "glue of the parking module never ran"
        others = [threading.Thread(target=worker, args=(f"thread {k}",)) for k in ((2, 3) if third_thread else (2,))]
        for t in others:
            t.start()
        deadline = time.monotonic() + 0.25
        while time.monotonic() < deadline and any(t.is_alive() for t in others):
            time.sleep(0.01)
        release.set()
        t1.join(10)
        for t in others:
            t.join(10)
        if any(t.is_alive() for t in [t1] + others):
            return "deadlock"
        if problems:
            return problems[0]
        for i in range(2):
            if completed.count(NAMES[i]) != 1:
                return f"glue of {NAMES[i]} completed {completed.count(NAMES[i])} times"
    return None


def _shard2(sh: Dict[str, Any]) -> Dict[str, Any]:
    cex: List[Dict[str, Any]] = []
    samples: List[Any] = []
    two_kinds = [0, 1, 2]  # module, builtin, both (non-raising)

    def harness(e: Engine) -> None:
        kinds = [two_kinds[e.choice("kind_a", 3)], two_kinds[e.choice("kind_b", 3)], 0]
        park = e.choice("parking_module", 2)
        third = e.flag("third_thread")
        why = two_thread_case(kinds, park, third)
        if len(samples) < 1:
            samples.append({"kinds": [KINDS[k] for k in kinds[:2]], "park": park, "threads": 3 if third else 2})
        if why and len(cex) < 3:
            cex.append({"threads": True, "kinds": kinds, "park": park, "third": third, "why": why, "f4": False})

    eng = Engine(max_seconds=300 * (6 if os.environ.get("VERIF_TIER_EFFECTIVE") == "thorough" else 1))
    eng.explore(harness)
    return par.shard_result(eng, shard="two-threads", cex=cex, samples=samples)


def run(rep: Any, tier: str, seed: int) -> None:
    import z3

    rep.engine_name = f"symx (z3 {z3.get_version_string()})"
    rep.functions = FUNCTIONS
    L = 4 if tier == "quick" else 5
    nn = 2 if tier == "quick" else 3
    rep.bounds = {"history_length": f"{L} operations + a final extract", "module_names": nn, "glue_kinds": KINDS,
                  "operations": "extract, add, remove, add a fresh object under a removed name, re-add the same object, late built-in registration"}
    rep.outside = ["thread schedules other than 'thread 1 is inside a glue call while threads 2(,3) start extracting' (other preemption points need source hooks + a scheduler; not attempted)",
                   "in-place replacement sys.modules[name] = other without removal", "histories longer than the bound"]
    rep.stubs = ["_glue.sys rebound to a private namespace whose .modules is a harness-owned dict pre-filled with 3 filler modules; replay uses the real sys.modules"]
    shards = [{"len": L, "names": nn, "kind0": k, "early": ea} for k in range(len(KINDS)) for ea in (True, False)]
    if tier == "thorough":   # split further so that every shard finishes within its budget
        shards = [dict(s_, kind1=k1, kind2=k2) for s_ in shards for k1 in range(len(KINDS)) for k2 in range(len(KINDS))]
    res = par.run_shards("harness.c17", "_shard", shards)
    for c in par.fold(rep, OB, res):
        rep.counterexample(OB, c, c["why"])
    res = par.run_shards("harness.c17", "_shard2", [{}])
    for c in par.fold(rep, OB2, res):
        rep.counterexample(OB2, c, c["why"])


def replay(c: Dict[str, Any]) -> Dict[str, Any]:
    if c.get("threads"):
        why = two_thread_case(c["kinds"], c["park"], c["third"])
        return {"status": "reproduces" if why else "not-reproduced", "detail": {"why": why}}
    r = run_history(c["kinds"], c["ops"], c["early"], use_real=True)
    return {"status": "reproduces" if not r["ok"] else "not-reproduced", "detail": r}


def classify(c: Dict[str, Any], out: Dict[str, Any]) -> Optional[str]:
    d = out.get("detail", {})
    if d.get("f4") and ("has run 0 times" in d.get("why", "")):
        return "F4"
    return None


def confirm_finding(fid: str) -> bool:
    if fid != "F4":
        return False
    # [module a present and scanned] remove a, add b (module glue), extract -> b's glue not run
    r = run_history([0, 0, 0], [1, 0, 4, 2], True, use_real=True)
    return (not r["ok"]) and bool(r.get("f4"))
