"""C03 -- a suspended await / yield-from chain extracts as the path an exception would take.

Engine: symx (solver-enumerated link kinds per position; LOW SOLVER LEVERAGE: no branch of
the implementation depends on a number here, the solver certifies that the finite product
of link kinds x positions x terminals x roots is explored completely).
Real code: extract / extract_iter and the built-in unwrappers of glue_builtins.
Oracle: the traceback of an exception thrown into the same object right after extraction.
"""
from __future__ import annotations

from typing import Any, Dict, List, Optional

import stackscope
from vlib import par
from vlib.symx import Engine

from harness import chaindrv as C

OB = "C03.chain == traceback of a thrown exception"
FUNCTIONS = ["stackscope._extract.extract / extract_iter", "stackscope._glue.glue_builtins.unwrap_geniter / unwrap_coro / unwrap_asyncgen",
             "stackscope._glue.glue_builtins.unwrap_async_generator_asend_athrow / unwrap_coroutine_wrapper", "stackscope._types.Frame.__post_init__ (lineno)"]


def case(root: str, kinds: List[str], terminal: str, pre: bool) -> Optional[str]:
    x, handle, reg = C.build(root, kinds, terminal, pre)
    try:
        st = stackscope.extract(x)
        st2 = stackscope.extract(x, with_contexts=False)
    except Exception as ex:
        return f"extract raised {ex!r}"
    if st.error is not None:
        return f"error recorded: {st.error!r}"
    if st.root is not x:
        return "root is not the extracted object"
    got = [(f.pyframe, f.lineno) for f in st.frames]
    if [f.pyframe for f in st2.frames] != [f.pyframe for f in st.frames] or [f.lineno for f in st2.frames] != [f.lineno for f in st.frames]:
        return "with_contexts=False gives different frames"
    leaf = st.leaf
    tb = C.traceback_frames(handle, case.__code__)
    if [id(f) for f, _ in got] != [id(f) for f, _ in tb]:
        return (f"frames {[f.f_code.co_name for f, _ in got]} != traceback {[f.f_code.co_name for f, _ in tb]}")
    if [l for _, l in got] != [l for _, l in tb]:
        return f"line numbers {[l for _, l in got]} != traceback {[l for _, l in tb]}"
    if root != "generator" and terminal == "iter_leaf":
        if not isinstance(leaf, C.IterLeaf):
            return f"leaf is {leaf!r}, expected the plain-iterator awaitable"
    elif leaf is not None:
        return f"leaf is {leaf!r}, expected None"
    # exhausted now (the probe exception ended it): no frames
    st3 = stackscope.extract(x)
    if st3.frames:
        return f"exhausted object still has frames {st3.frames}"
    if st3.leaf is not None or st3.error is not None:
        return f"exhausted object: leaf {st3.leaf!r}, error {st3.error!r} (nothing is left to report)"
    return None


OB_LONG = "C03.long chains (symbolic length n, split by the solver)"


def long_case(kind: str, n: Any) -> Optional[str]:
    """A chain of n links of one kind; n is symbolic, the recursion compares its depth with it."""
    if kind == "yield_from":
        def g(k: int) -> Any:
            if k < n:
                return (yield from g(k + 1))
            yield "t"

        x: Any = g(0)
        next(x)
    else:
        async def node(k: int) -> Any:
            if k < n:
                if kind == "await_wrapper":
                    return await C.Wrapper(node(k + 1))
                return await node(k + 1)
            return await C.trap()

        x = node(0)
        x.send(None)
    st = stackscope.extract(x, with_contexts=False)
    if st.error is not None:
        return f"error recorded for a legitimate chain: {st.error!r} ({len(st.frames)} frames)"
    tb = C.traceback_frames(x, long_case.__code__)
    if [id(f.pyframe) for f in st.frames] != [id(f) for f, _ in tb]:
        return f"{len(st.frames)} frames extracted, the thrown exception unwinds through {len(tb)}"
    if [f.lineno for f in st.frames] != [l for _, l in tb]:
        return "line numbers differ from the traceback"
    return None


def _long_shard(sh: Dict[str, Any]) -> Dict[str, Any]:
    cex: List[Dict[str, Any]] = []
    samples: List[Any] = []
    kind = sh["kind"]

    def harness(e: Engine) -> None:
        n = e.int("n", sh["lo"], sh["hi"])
        why = long_case(kind, n)
        if len(samples) < 1:
            samples.append({"long_chain_kind": kind, "n(one model value)": e.model().get("n")})
        if why and len(cex) < 2:
            cex.append({"long": kind, "n": e.model().get("n"), "why": why})

    eng = Engine(max_seconds=600)
    eng.explore(harness)
    return par.shard_result(eng, shard=f"long/{kind}/{sh['lo']}-{sh['hi']}", cex=cex, samples=samples)


def kinds_for(root: str) -> List[str]:
    return C.GEN_KINDS if root == "generator" else C.AWAIT_KINDS


def _shard(sh: Dict[str, Any]) -> Dict[str, Any]:
    cex: List[Dict[str, Any]] = []
    samples: List[Any] = []
    root, depth = sh["root"], sh["depth"]
    ks = kinds_for(root)

    def harness(e: Engine) -> None:
        kinds = [ks[e.choice(f"link{j}", len(ks))] for j in range(depth)]
        terminal = "trap" if root == "generator" else C.TERMINALS[e.choice("terminal", 2)]
        pre = e.flag("completed_await_first")
        why = case(root, kinds, terminal, pre)
        if len(samples) < 1:
            samples.append({"root": root, "links": kinds, "terminal": terminal})
        if why and len(cex) < 4:
            cex.append({"root": root, "kinds": kinds, "terminal": terminal, "pre": pre, "why": why})

    eng = Engine(max_seconds=600)
    eng.explore(harness)
    return par.shard_result(eng, shard=f"{root}/depth{depth}", cex=cex, samples=samples)


def run(rep: Any, tier: str, seed: int) -> None:
    import z3

    rep.engine_name = f"symx (z3 {z3.get_version_string()})"
    rep.functions = FUNCTIONS
    D = 3 if tier == "quick" else 4
    rep.bounds = {"long chains": "every length 0..130 (thorough 260) of await / await-through-__await__-wrapper / yield-from links, as a z3 Int", "depth": f"0..{D}", "await link kinds": C.AWAIT_KINDS, "generator link kinds": C.GEN_KINDS,
                  "terminals": C.TERMINALS, "roots": C.ROOTS}
    rep.outside = ["async_generator backport links", "mixed-kind chains deeper than the bound, homogeneous chains longer than the long-chain bound", "custom awaitables implemented in C other than the built-in ones"]
    rep.assumptions = ["low solver leverage: the solver enumerates a finite product and certifies it complete"]
    shards = [{"root": r, "depth": d} for r in C.ROOTS for d in range(0, D + 1)]
    hi = 130 if tier == "quick" else 260
    longs = [{"kind": k, "lo": lo, "hi": min(lo + 43, hi)} for k in ("coro", "await_wrapper", "yield_from") for lo in range(0, hi + 1, 44)]
    res = par.run_mixed("harness.c03", [("_shard", s_) for s_ in shards] + [("_long_shard", s_) for s_ in longs])
    for c in par.fold(rep, OB, [r for f, r in res if f == "_shard"]):
        rep.counterexample(OB, c, c["why"])
    for c in par.fold(rep, OB_LONG, [r for f, r in res if f == "_long_shard"]):
        rep.counterexample(OB_LONG, c, c["why"])


def replay(c: Dict[str, Any]) -> Dict[str, Any]:
    if "long" in c:
        why = long_case(c["long"], c["n"])
        return {"status": "reproduces" if why else "not-reproduced", "detail": why}
    why = case(c["root"], c["kinds"], c["terminal"], c["pre"])
    return {"status": "reproduces" if why else "not-reproduced", "detail": why}


def classify(c: Dict[str, Any], out: Dict[str, Any]) -> Optional[str]:
    return None
