"""C06 -- extraction is a pure observation: no perturbation, repeatable, nothing retained.

Engine: symx.  Real code: the whole extraction path, on really suspended generators /
coroutines / async generators of the C01 program grammar, and from inside running frames.
Symbolic: the suspension index k at which the extraction is performed (an UNBOUNDED z3 Int
compared by the driver at every suspension: one path per suspension plus the beyond-the-end
class), the repetition count, the analysis mode (trickery / referents), the decision script.
Oracle: an unobserved twin run of the same program with the same script (event trace, values
produced, result / exception), equality of two extractions, and reference counts / weak
references of the managers, frames and generator after the results are dropped.

symx does not trace and its proxies never reach the observed objects, so the reference counts
measured are those of the real run (this is why the plan's objection to C06 does not apply to
this engine).  What stays outside: interpreter crashes that do not happen within the run, and
value-stack objects other than the managers.
"""
from __future__ import annotations

import contextlib
import gc
import io
import os
import sys
import weakref
from typing import Any, Dict, List, Optional, Tuple

import stackscope
from vlib import par
from vlib.symx import Engine

OB = "C06.observed run == unobserved twin; equal extractions; nothing retained"
FUNCTIONS = ["stackscope._extract.extract (whole path)", "stackscope._lowlevel_cpython_311.inspect_frame (py_object reads take and release real references)",
             "stackscope._lowlevel.contexts_active_in_frame / _contexts_active_by_referents", "stackscope._glue.glue_builtins (type-discovery helpers)"]


def programs() -> List[Tuple[Dict[str, Any], str]]:
    from vlib.bc import progs

    allp = list(progs.corpus("quick", 0))
    keep = [p for p in allp if p[0]["tail"] in ("plain", "nested_with", "nested_async_with", "try_finally_last", "raise", "swallow",
                                                 "if_return_value", "try_except_last", "return_in_try_finally")]
    return keep[::7]


def trace_of(env: Any) -> List[Tuple[str, int]]:
    return [(ev, i) for ev, i, _ in env.log]


class Wrapped:
    """A custom stack item (e.g. a scheduler's task object) whose unwrap hook returns the wrapped generator-like object."""

    def __init__(self, obj: Any):
        self.obj = obj


@stackscope.unwrap_stackitem.register(Wrapped)
def _unwrap_wrapped(w: Wrapped) -> Any:
    return w.obj


def twin_case(pi: int, ri: int, k: Any, reps: int, mode: int, via: int = 0) -> Dict[str, Any]:
    """Run program pi twice with run ri (script / throw point): once unobserved, once with `reps`
    extractions at the suspension whose index equals the symbolic k.  mode 0: trickery, 1: referents."""
    from stackscope import _lowlevel
    from vlib.bc import dyn

    desc, src = programs()[pi]
    runs = dyn.all_runs(src)
    script, throw_at = runs[ri % len(runs)]
    kind = desc["kind"]

    def one(observe: bool) -> Dict[str, Any]:
        prog = dyn.compile_prog(src)
        envs: List[Any] = []
        yielded: List[Any] = []
        hit: Dict[str, Any] = {"n": 0, "why": None}
        orig_env = dyn.Env

        class RecEnv(orig_env):  # type: ignore[misc,valid-type]
            def __init__(self, s: Any):
                super().__init__(s)
                envs.append(self)

        dyn.Env = RecEnv  # type: ignore[misc]
        outcome: Any = None
        try:
            def observe_now(gen: Any, frame: Any, active: List[Any]) -> None:
                hit["n"] += 1
                # managers reachable ONLY from the value stack (no `as` target, no other local): accessing
                # frame.f_locals makes CPython cache a dict of the locals on the frame itself, which is the
                # target keeping its own locals, not stackscope keeping anything
                local_ids = {id(v) for v in frame.f_locals.values()}
                mgrs = [m for m in active if id(m) not in local_ids]
                hit["wr_gen"] = weakref.ref(gen)
                rc_before = [sys.getrefcount(m) for m in mgrs]
                ref_before = [set(map(id, gc.get_referrers(m))) for m in mgrs]
                frc_before = sys.getrefcount(frame)
                stacks = []
                a = b = None
                # via == 1: the target is reached through a custom stack item whose unwrap hook returns it as a single item
                target = Wrapped(gen) if via == 1 else gen
                for _ in range(reps):
                    with contextlib.redirect_stderr(io.StringIO()):
                        stacks.append(stackscope.extract(target))
                for a, b in zip(stacks, stacks[1:]):
                    if a != b:
                        hit["why"] = "two extractions of the unchanged target are not equal"
                if any(s.error is not None for s in stacks) and desc["tail"] not in ("try_except_last", "if_return_value"):
                    hit["why"] = f"extraction error {stacks[0].error!r}"
                if any(not s.frames or s.frames[0].pyframe is not frame for s in stacks):
                    hit["why"] = "the extraction does not start with the target's own frame"
                wr = [weakref.ref(s.frames[0]) for s in stacks if s.frames]
                pyframes = [f.pyframe for s in stacks for f in s.frames]
                del stacks, a, b, target
                gc.collect()
                rc_after = [sys.getrefcount(m) for m in mgrs]
                if rc_after != rc_before:
                    # the only tolerated new holder is CPython's own cache of a target frame's locals
                    # (frame.f_locals materialises a dict that the frame keeps): the target holding itself
                    own = {id(f.f_locals) for f in pyframes}
                    for j in range(len(mgrs)):
                        cur = gc.get_referrers(mgrs[j])
                        new = [r for r in cur if id(r) not in ref_before[j] and id(r) not in own and r is not mgrs and r is not cur]
                        if new:
                            hit["why"] = (f"after the results were dropped the manager {mgrs[j]!r} has a new holder "
                                          f"{type(new[0]).__name__}: {str(new[0])[:80]}")
                        del cur, new
                del pyframes
                if sys.getrefcount(frame) != frc_before:
                    hit["why"] = "reference count of the frame changed after the results were dropped"
                if any(w() is not None for w in wr):
                    hit["why"] = "a returned Frame object is still alive after the results were dropped"

            def on_created(obj: Any) -> None:
                if observe and k == 0:  # symbolic: extraction BEFORE the target has been started
                    fr = getattr(obj, "gi_frame", None) or getattr(obj, "cr_frame", None) or getattr(obj, "ag_frame", None)
                    observe_now(obj, fr, [])
                elif not observe:
                    pass

            def on_suspend(ob: Any) -> None:
                yielded.append(ob.lasti)
                if not observe:
                    return
                if ob.step == k:  # symbolic
                    observe_now(ob.gen, ob.frame, ob.active)

            if mode == 1:
                _lowlevel.set_trickery_enabled(False)
            try:
                try:
                    dyn.drive(prog, kind, script, throw_at, on_suspend, None, on_created)
                    outcome = "finished"
                except BaseException as ex:  # noqa
                    outcome = ("raised", type(ex).__name__)
            finally:
                _lowlevel.set_trickery_enabled(None)
        finally:
            dyn.Env = orig_env  # type: ignore[misc]
        env = envs[0] if envs else None
        tr = trace_of(env) if env else None
        # the target stays collectable: once the driver's own references are gone, so is the generator
        wr_gen = hit.pop("wr_gen", None)
        del env, envs, prog
        gc.collect()
        if wr_gen is not None and wr_gen() is not None and hit["why"] is None:
            hit["why"] = "the observed generator / coroutine is still alive after the run and the results were dropped"
        return {"trace": tr, "lastis": yielded, "outcome": outcome, "hit": hit["n"], "why": hit["why"]}

    base = one(False)
    obs = one(True)
    why = obs["why"]
    if why is None and (obs["trace"] != base["trace"] or obs["lastis"] != base["lastis"] or obs["outcome"] != base["outcome"]):
        why = (f"observed run differs from the unobserved twin: events {len(obs['trace'] or [])} vs {len(base['trace'] or [])}, "
               f"outcome {obs['outcome']} vs {base['outcome']}")
    return {"ok": why is None, "why": why, "hit": obs["hit"]}


OB_IMPORT = "C06.type-discovery helpers created while the library is imported are finished, not left half-run"
_IMPORT_PROBE = r"""
import gc, sys, warnings
seen = {"first": [], "final": []}
def _name(ag):
    code = getattr(ag, "ag_code", None)
    return (getattr(code, "co_filename", "?"), getattr(ag, "__qualname__", "?"))
sys.set_asyncgen_hooks(firstiter=lambda ag: seen["first"].append(_name(ag)), finalizer=lambda ag: seen["final"].append(_name(ag)))
warnings.simplefilter("error")            # 'coroutine ... was never awaited', ResourceWarning, ...
sys.path.insert(0, sys.argv[1])
import stackscope
def g():
    yield 1
x = g(); next(x)
stackscope.extract(x)                      # runs every pending piece of built-in glue
del x
for _ in range(3):
    gc.collect()
mine = [n for n in seen["final"] if "stackscope" in n[0] and "_tests" not in n[0]]
if mine:
    print("FINALIZER-SAW", mine)
print("DONE", len(seen["first"]), len(seen["final"]))
"""


def import_case() -> Optional[str]:
    """A fresh interpreter in which asynchronous-generator hooks are installed BEFORE stackscope is imported (as when it
    is first imported from inside a running event loop): nothing the library creates for itself may reach the
    finalizer hook or trigger a 'never awaited' / resource warning."""
    import subprocess

    repo = os.environ.get("VERIF_REPO", "/repo")
    r = subprocess.run([sys.executable, "-X", "dev", "-c", _IMPORT_PROBE, repo], capture_output=True, text=True, timeout=120,
                       env={k: v for k, v in os.environ.items() if k != "PYTHONPATH"})
    out = r.stdout + r.stderr
    if "FINALIZER-SAW" in out:
        return "an async generator created by the library for itself was left unfinished: " + out.split("FINALIZER-SAW", 1)[1].splitlines()[0][:200]
    if r.returncode != 0 or "DONE" not in r.stdout:
        return f"importing and using the library in a fresh interpreter with warnings as errors failed: {out[-300:]}"
    if "Warning" in r.stderr:
        return f"warning while importing / first use: {r.stderr[-300:]}"
    return None


def _shard(sh: Dict[str, Any]) -> Dict[str, Any]:
    from vlib.bc import dyn

    cex: List[Dict[str, Any]] = []
    samples: List[Any] = []
    pi = sh["prog"]
    desc, src = programs()[pi]
    nruns = len(dyn.all_runs(src))
    reached = [0]

    def harness(e: Engine) -> None:
        ri = e.choice("run", nruns)
        mode = e.choice("analysis_mode", 2)
        reps = 1 + e.choice("repetitions", 2)
        k = e.int("suspension_index", 0, None)      # 0: before the target has been started
        via = e.choice("reached_through_a_custom_stack_item", 2) if reps == 1 else 0
        r = twin_case(pi, ri, k, reps, mode, via)
        if r["hit"]:
            reached[0] += 1
        if len(samples) < 1 and r["hit"]:
            samples.append({"program": desc, "run": ri, "mode": mode, "via_custom_item": via, "repetitions": reps, "k(one model value)": e.model().get("suspension_index")})
        if not r["ok"] and len(cex) < 2:
            cex.append({"prog": pi, "run": ri, "k": e.model().get("suspension_index"), "reps": reps, "mode": mode, "via": via, "why": r["why"]})

    eng = Engine(max_seconds=600)
    eng.explore(harness)
    return par.shard_result(eng, shard=f"prog{pi}", cex=cex, samples=samples, reached=reached[0])


def run(rep: Any, tier: str, seed: int) -> None:
    import z3

    rep.engine_name = f"symx (z3 {z3.get_version_string()})"
    rep.functions = FUNCTIONS
    ps = programs()
    n = len(ps) if tier == "thorough" else min(len(ps), 12)
    rep.bounds = {"programs": f"{n} of the C01 grammar (every kind), all decision scripts and throw points of each",
                  "observation": "at the suspension whose index equals an unbounded symbolic k (one path per suspension; k = 0 is the not yet started target), 1 or 2 extractions, trickery or referents mode, "
                                 "the target extracted directly or through a custom stack item whose unwrap hook returns it"}
    rep.outside = ["crashes that would only show many operations later", "value-stack objects other than the managers", "extraction from inside a running frame (covered for exactness by C02, not for purity here)",
                   "CPython 3.9-3.11"]
    rep.assumptions = ["symx does not trace and its proxies never reach the observed objects: the measured reference counts are those of the real run",
                       "low solver leverage: the solver partitions the suspension index"]
    res = par.run_shards("harness.c06", "_shard", [{"prog": i} for i in range(n)])
    for c in par.fold(rep, OB, res):
        rep.counterexample(OB, c, c["why"])
    # one deterministic scenario, no symbolic input: the helpers of glue_builtins (anchor: _glue.py type discovery)
    why = import_case()
    rep.add_counts(OB_IMPORT, 1, 0, reached=1)
    if why:
        rep.counterexample(OB_IMPORT, {"import_leg": True, "why": why}, why)


def replay(c: Dict[str, Any]) -> Dict[str, Any]:
    if c.get("import_leg"):
        why = import_case()
        return {"status": "reproduces" if why else "not-reproduced", "detail": why}
    r = twin_case(c["prog"], c["run"], c["k"], c["reps"], c["mode"], c.get("via", 0))
    return {"status": "reproduces" if not r["ok"] else "not-reproduced", "detail": r}


def classify(c: Dict[str, Any], out: Dict[str, Any]) -> Optional[str]:
    return None
