#!/usr/bin/env python3
"""Regenerates /verif/MANIFEST.json from the table below (kept in one place so
that the manifest is always valid and in step with the checks that exist)."""
import json
import os

ROOT = os.path.dirname(os.path.dirname(os.path.abspath(__file__)))

SYMX = "symx: concolic execution of the real functions on z3-backed proxies, depth-first over all feasible paths"
XH = "CrossHair 0.0.110 (z3) symbolic execution of the real functions, per-condition time budget"

CHECKS = {
    "C10": dict(
        engine="symx+z3",
        technique="bounded symbolic execution of the real extract_iter (symx/z3: all paths over shape x hook-result choices, symbolic repeat count vs. the 100-step guard); oracle = depth-based reference interpretation (decides every input) cross-checked by two loose readings + metamorphic obligations",
        text="Every feasible path of driver+real extract_iter over 18 tree shapes x sequence kinds x 8 elaborate results per frame (x inserted frames' own results) is explored with z3 deciding each branch; the 100-step guard is checked for all n in 0..130 by solver case-split. Holds within that bound; says nothing about larger trees.",
        note="Hooks are deterministic; the depth-based reference (items carry their unwrapping depth; a prune/replacement at depth d removes the following items at depth >= d, nothing shallower) decides every input; the flat and scope readings of the docs are kept as a cross-check where they agree; metamorphic obligations M1-M3 on all inputs. Trusted: z3, symx, the reference interpreters in harness/itemdrv.py.",
        ref="DESIGN.md 5.C10",
    ),
}

CHECKS["C04"] = dict(
    engine="symx+z3",
    technique="bounded symbolic execution (symx/z3) of the real unwrap_stackslice body on a stub thread/greenlet stack with an unbounded symbolic limit, plus all entry points on real frames and real greenlets",
    text="All feasible paths of the real slicing code for every stack of 1..5 (thorough 7) frames, every greenlet split, every (outer, inner) anchor pair incl. a foreign thread, and limit ranging over ALL integers >= 1 as a z3 Int; extract/extract_since/extract_until on real nested calls, generators, coroutines and greenlets up to depth 3 (4). Holds within those sizes.",
    note="Stub frames expose only f_back/identity; greenlet stub follows the semantics described in _glue.py comments and is cross-checked by obligation B on real greenlets. Racing threads and PyPy f_back cycles are outside.",
    ref="DESIGN.md 5.C04",
)

CHECKS["C12"] = dict(
    engine="symx+z3",
    technique="bounded symbolic execution (symx/z3) of IdentityDict against a model mapping over symbolic operation sequences with symbolic values; solver-enumerated registration sequences on equal-but-distinct code objects, wrapper towers, nested-name paths and all customize option combinations",
    text="All paths over operation sequences of length 3 (thorough 4) on IdentityDict with equal-but-distinct unhashable keys; all registration sequences <= 3 (4) on twin code objects; all towers of depth <= 3 (4) over 7 layer kinds; 17 nested-name paths x 3 target forms; 2^3 x 3 x 2 customize configurations observed through a real extract. Holds within these bounds.",
    note="Values stored in the mapping are unconstrained z3 Ints compared by identity; low solver leverage for obligations 2-4 (finite choice spaces certified complete by the solver).",
    ref="DESIGN.md 5.C12",
)

CHECKS["C11"] = dict(
    engine="symx+z3",
    technique="bounded symbolic execution (symx/z3) of the real fill_context and contextlib glue with the wrapper-chain length n as a z3 Int split by the solver at every hook step (0..99, 100, >=101)",
    text="For every n in 0..105 (thorough 0..130), 4 endings (None, PRUNE, (), cycle), class-based and generator-based (incl. yield-from) manager chains, obj-redirecting elaborate hooks, exiting and non-exiting contexts, inside and outside extract: elaborate ran on the original and after each unwrap, on reset state; final obj/inner_stack/children/hide are those of the last link; >100 steps gives RuntimeError. Holds within the bound.",
    note="n == 100 exactly is accepted with either outcome. Managers equal to () are outside. The generator-based links are real contextlib managers with really suspended generators.",
    ref="DESIGN.md 5.C11",
)

CHECKS["C17"] = dict(
    engine="symx+z3",
    technique="bounded symbolic execution (symx/z3) of the real add_glue_as_needed/builtin_glue over solver-enumerated sys.modules histories with an exactly-once/in-time/module-beats-built-in monitor",
    text="All histories of 4 (thorough 5) operations (add, remove, re-add same object, fresh object under a removed name, extract, built-in registration after the library import) over 2 (3) module names x 7 glue kinds incl. raising glue, each closed by an extract, run through the real extract(); monitor checked after every extract. Plus a two/three-thread leg forced through a blocking glue call (thread 1 is inside a glue function while the others start extracting).",
    note="_glue.sys is rebound to a private namespace with a harness-owned modules dict (replay uses the real sys.modules). Thread schedules at the other preemption points of the routine are outside the bound (would need source hooks + a scheduler). Known finding F4 (len fast path) is reported as KNOWN-FINDING.",
    ref="DESIGN.md 5.C17",
)

CHECKS["C13"] = dict(
    engine="symx+z3",
    technique="bounded symbolic execution (symx/z3): option booleans are z3 Bools that flow through ExtractOptions.push into the real `if current_options...` tests; solver-enumerated nesting plans; one deterministic two-thread hand-off",
    text="All nesting plans of depth <= 3 (thorough 4) over the entry points extract / extract_child / fill_context / extract_outermost with every option combination and a BaseException abort at any level; hooks observe the options only through behaviour (stub vs populated child stack, empty vs filled contexts, RuntimeError outside) before and after each nested call. Two threads with all 16 option combinations under the A-in, B-in, A-out, B-out hand-off.",
    note="Free-running concurrency, more than two threads and other hand-off orders are outside the bound.",
    ref="DESIGN.md 5.C13",
)

CHECKS["C05"] = dict(
    engine="symx+z3",
    technique="bounded symbolic execution (symx/z3) of the whole real extraction path with the index k of the faulted hook invocation as an unbounded z3 Int compared inside every wrapped dispatcher (one path per dynamic invocation + the beyond-the-end class); fault pairs k<k2",
    text="For 7 scenarios on real objects (coroutine chain with nested generator-based managers and an ExitStack, async generator with AsyncExitStack, three custom item trees with iterator/insert/replace hooks, a parked thread, a suspended greenlet) every single fault position and (quick: 3 scenarios, thorough: all) every pair of positions, two exception kinds: extract returns a Stack, each injected exception is retrievable from the .error of the Stack being built, outward frames equal the fault-free run, the result formats. Plus 18 arbitrary non-stack objects.",
    note="Fault sites: unwrap_stackitem, FrameIterator.__next__, elaborate_frame, contexts_active_in_frame, elaborate_context, unwrap_context, unwrap_context_generator. BaseExceptions and faults inside CPython are outside. Injectors are transparent wrappers on module-level dispatcher names.",
    ref="DESIGN.md 5.C05",
)

CHECKS["C01"] = dict(
    engine="symx+z3",
    technique="bounded symbolic execution (symx/z3): BV-mode lemma on symbolic exception-table bytes and a symbolic instruction index for the real decoder and the real handler-chain walk (AST slice of inspect_frame); per compiled code object of a with-centric program grammar, f_lasti symbolic over every reachable suspension offset through the real contexts_active_in_frame with a validated inspect_frame model; oracle = tagged abstract interpretation",
    text="Lemma: for all tables of 1-2 (thorough 3) entries with 1-2 (3) byte varints with symbolic payloads and every instruction index, the real decoder equals the format spec and the real chain walk equals CPython's get_exception_handler iterated. Main: for every code object of the corpus (quick ~670, thorough ~5000) and every reachable suspension offset, the real analysis returns exactly the entered-but-not-exited managers (obj identity, is_async, is_exiting), without InspectionWarning. CPython 3.12 and 3.11 (second interpreter leg); the corpus is a stated bound, not a solver result.",
    note="The ctypes half of inspect_frame is replaced by a model (blocks from the real chain walk, stack from the abstract interpreter) that is validated against the real interpreter at every real suspension of every program in the run (mismatch = exit 2). Finding F2 (exit site mis-resolved for bodies ending in `if c: return` / try-except) was produced by this check, first recorded, then repaired in /repo (fix: 96d2c5b); its bytecode-only classifier stays in the harness and, the entry being marked fixed, suppresses nothing. Managers come in four implementation kinds (plain, inherited protocol, C-implemented __exit__ calling back into Python, both protocols). Counterexamples are replayed on really suspended frames.",
    ref="DESIGN.md 5.C01",
)
CHECKS["C08"] = dict(
    engine="symx+z3",
    technique="bounded symbolic execution (symx/z3) with f_lasti symbolic over every reachable suspension offset of each compiled code object (C01 corpus + target-form x layout corpus), real analyze_with_blocks / describe_assignment_target / locals fallback; oracle = AST of the same source joined through instruction positions; static stdlib table leg",
    text="Every Context reported at every reachable suspension offset has start_line = line of the with keyword and a varname that is None, or parses to the item's as-target, or (item without target) names a local bound to the manager; supported target forms are never dropped. Thorough: analyze_with_blocks for every with block of every function of the standard library (about 500 blocks) against the AST.",
    note="As C01 for the model. A solver-enumerated grammar of as-targets (names, attribute / subscript / call chains, pairs, lists, starred, nested) is pushed through the real analyze_with_blocks: the varname is the target or None, never another expression (evidence records how many were rendered / dropped). The stdlib leg is a concrete enumeration of compiler output (corpus bound, no symbolic variable). CPython 3.12 and 3.11.",
    ref="DESIGN.md 5.C08",
)

CHECKS["C20"] = dict(
    engine="symx+z3",
    technique="bounded symbolic execution (symx/z3): f_lasti symbolic over every reachable suspension offset through the real referents implementation with a validated collector model; symbolic (unbounded) index of the faulted step inside the trickery analysis on really suspended frames; solver-enumerated set_trickery_enabled sequences and nestings of two reentrant manager objects",
    text="(1) For every code object of the C01 corpus and every reachable suspension offset the referents answer contains every active manager in order with right obj/is_async, an is_exiting entry exactly when an exit call is in progress, and extras only for the manager being entered/exited. (2) For 4 programs driven through all their suspensions, a fault at ANY step k of analyze_with_blocks / inspect_frame / currently_exiting_context / the join yields the referents answer, exactly one InspectionWarning and no exception. (1b) About 70 programs of all kinds driven for real with trickery disabled: at the suspension whose index equals a symbolic (unbounded) integer, the real referents answer on the real frame with its real origin is judged against the managers' event log. (3) All sequences of length <= 3 (4) over True/False/None select the documented mode, observed on the calling and on another thread. (4) 1..3 (thorough 4) nested with / async with blocks over two reentrant manager objects in any repetition: one entry per active block, in order, in referents mode and in default mode.",
    note="Obligation 1 assumes the collector reports a frame's locals then its value stack bottom-up; this is validated against the real collector on really suspended generators in the run (mismatch = exit 2). Findings produced by this check: F2 sites (shared exiting-block matcher; repaired) and F13 (managers whose __exit__ is implemented in C were missing in referents mode; repaired, fix: edb075d). CPython 3.12 and 3.11.",
    ref="DESIGN.md 5.C20",
)

CHECKS["C02"] = dict(
    engine="symx+z3",
    technique="bounded symbolic execution (symx/z3): f_lasti symbolic over the measured resting offsets of every reachable call-type instruction of each compiled code object, real contexts_active_in_frame with the inspect_frame model in running mode (stack trimmed by the real for/else slice); oracle = tagged abstract interpretation",
    text="For every code object of the running-frame corpus (plain functions, generators, coroutines, async generators; quick ~830, thorough ~6500) and every reachable CALL / BEFORE_WITH / WITH_EXCEPT_START / SEND at each measured resting offset: a manager whose __enter__/__aenter__ is running is not listed, one whose __exit__/__aexit__ is running is listed last with is_exiting and obj set, everything else exact. CPython 3.12 and 3.11 (second interpreter leg).",
    note="Resting offsets are measured by real probes in the run and every real probe must rest at a tabled offset (else exit 2); the abstract interpreter is validated against the event log at every real probe. F2 sites (now repaired) were reported through the shared classifier. Counterexamples are replayed with probes calling the real analysis on the really running frame.",
    ref="DESIGN.md 5.C02",
)

CHECKS["C03"] = dict(
    engine="symx+z3",
    technique="bounded symbolic execution (symx/z3) of the real extract and built-in unwrappers over solver-enumerated link kinds per chain position; oracle = traceback of an exception thrown into the same object",
    text="All chains of depth 0..3 (thorough 4) over 10 await link kinds (native coroutine, @types.coroutine, __await__ returning a coroutine wrapper / a generator, async-generator asend / __anext__ / async for / athrow / aclose / asend of a value that is itself a started async generator) or 2 yield-from kinds, trap or plain-iterator terminal, coroutine / generator / async-generator roots, with and without a completed await before the suspension: frames (identity and line numbers) equal the traceback of a thrown exception, leaf/root/exhaustion/with_contexts as stated.",
    note="LOW SOLVER LEVERAGE: no branch of the implementation depends on a number here; the solver enumerates a finite product and certifies it complete. async_generator backport links are outside.",
    ref="DESIGN.md 5.C03",
)

CHECKS["C16"] = dict(
    engine="symx+z3",
    technique="bounded symbolic execution (symx/z3) of the real extract / extract_outermost / origin tracking over solver-enumerated chains (C03 driver), item trees (C10 driver), threads, greenlets, frameless roots and running generator-likes",
    text="For every frame of every chain of depth <= 2 (thorough 3) over all link kinds, of 11 item trees x 5 hook tables, of a parked thread and a suspended greenlet: a non-None origin is weak-referenceable and extract_outermost(origin).pyframe is that frame; frames found by looking inside a suspended generator-like have it as origin; extract_outermost(x) equals extract(x).frames[0] field by field or raises (re-raising the recorded error) iff there are no frames; also from 0..2 calls below a running generator / coroutine / async generator.",
    note="LOW SOLVER LEVERAGE (finite scenario product certified complete by the solver). Trio/greenback item kinds are outside.",
    ref="DESIGN.md 5.C16",
)

CHECKS["C18"] = dict(
    engine="symx+z3",
    technique="bounded symbolic execution (symx/z3): node flags and the three format options are z3 Bools flowing into the real _format code; oracle = a reader written from the documented marker grammar",
    text="For 7 tree shapes (frames > contexts > inner stacks / child contexts / child task stacks: populated, stub, without root; leaf; errors incl. multi-line) with every combination of the symbolic flags (hide, hide_line, is_exiting, start_line presence; thorough also is_async / obj presence on more nodes), marker look-alike descriptions and varnames, and all 8 option combinations: every line is a single newline-terminated line, str() is the concatenation, the Unicode text reads back to exactly the object's visible structure, the ASCII text is the per-marker substitution of the Unicode text, show_contexts=False prints exactly the frame series.",
    note="Strings containing newlines and symbolic strings are outside; the number of flagged nodes per shape is bounded (quick: 1 frame, 2 contexts, 1 text; thorough: 2 frames, 2 contexts (one of them also with is_async / obj presence), 1 text).",
    ref="DESIGN.md 5.C18",
)
CHECKS["C19"] = dict(
    engine="symx+z3",
    technique="bounded symbolic execution (symx/z3): node flags and show_contexts / show_hidden_frames / capture_locals as z3 Bools through the real summary code; oracle = reference projection written from the docstrings",
    text="Same trees and flags as C18 x 8 option combinations: the StackSummary has exactly the reference projection's entries (filename, line, name, presence and names of locals), pickles round-trip, holds no frame, and format_flat() is header + StackSummary.format() + leaf line + error lines.",
    note="Line numbers are concrete (the standard library looks source lines up eagerly); start_line == 0 is outside; values of captured locals are not compared (the standard library re-applies repr()).",
    ref="DESIGN.md 5.C19",
)

CHECKS["C15"] = dict(
    engine="symx+z3",
    technique="bounded symbolic execution (symx/z3) of the real greenlet glue + StackSlice slicing over solver-enumerated scenarios on real greenlets; oracle = shadow call log / gr_frame f_back walk",
    text="Greenlets: parent chains of 1..3 (thorough 4) nested greenlets with 0..2 (3) calls each; target any greenlet of the chain; asked from the main greenlet, from the target itself (also directly from its entry function, whose frame has no f_back) and from a descendant (0..1 calls deeper); unstarted, dead and running-in-another-thread greenlets: exactly the target's own frames / no frames / a RuntimeError in .error; the current greenlet with a main / unstarted / dead parent. Greenback: sync/async alternation depth 0..3 (thorough 6) through await_ inside a Trio task with a portal (a real deterministic trio.run per path), observed from another task and from the innermost level: the visible frames are exactly the levels in order, bridging internals hidden.",
    note="LOW SOLVER LEVERAGE. PyPy greenlets, greenback.async_context and free-running threads are outside.",
    ref="DESIGN.md 5.C15",
)

CHECKS["C09"] = dict(
    engine="symx+z3",
    technique="bounded symbolic execution (symx/z3) of the real contextlib glue and fill_context recursion over solver-enumerated registration sequences on real ExitStack / AsyncExitStack / generator-based managers; oracle = construction log",
    text="All registration sequences of length 0..3 (thorough 4) over 9 sync operations (enter_context / push of plain, generator-based, yield-from generator-based managers and a nested exit stack; push(function), push(bound method), callback) and, for AsyncExitStack, 5 async ones, held by a suspended generator or coroutine: one child per registration in order, obj identifies the registered object, sync/async kind, the registration method in the description, recursive unfolding of generator-based managers (inner_stack incl. their own contexts) and nested stacks. Generator-based managers observed exiting (async: suspended in the exit part; sync: exit part running and asking) and not exiting.",
    note="LOW SOLVER LEVERAGE. push(manager) and enter_context(manager) are indistinguishable after registration (either name accepted). async_generator backport managers and trees deeper than 2 are outside.",
    ref="DESIGN.md 5.C09",
)

CHECKS["C14"] = dict(
    engine="symx+z3",
    technique="bounded symbolic execution (symx/z3) of the real Trio glue over solver-enumerated task-tree shapes and thread-hop chains, each path a deterministic real trio.run; oracle = Trio's own child_nurseries / child_tasks and the construction order of the hops",
    text="Task trees of depth <= 2 (thorough 3), fan-out <= 2, <= 2 nested nurseries per task (57 shapes quick, several hundred thorough), each task blocked in its innermost body or in a nursery's __aexit__, 8 nursery-body shapes (plain, try/finally, try/except, conditional return, two nested nurseries in one frame, nursery opened through an @asynccontextmanager helper, children started with nursery.start() after started(), a last child still inside nursery.start() before started()), recurse_child_tasks on/off: each open nursery appears once in nesting order with obj the trio.Nursery and children exactly its child tasks (by root identity), recursively, no error, no warning. to_thread/from_thread alternation depth 0..3 (thorough 5), observed by another task and by the innermost level: the visible frames continue through every level in order with the bridging internals hidden.",
    note="LOW SOLVER LEVERAGE. Every run is deterministic: tasks observed after wait_all_tasks_blocked(), threads parked on Events; free-running threads are outside. Hop chains are rooted in a Trio task or in a foreign thread calling from_thread.run(trio_token=...); the foreign root at depth >= 3 produced finding F12 (repaired, fix: 0ae3ae7). F2 shapes (nursery body ending in try/except or `if: return`, task blocked in that nursery's __aexit__) were reported through the shared classifier until F2 was repaired. DESIGN.md 5.C14 explains why this was first declared not applicable and what changed.",
    ref="DESIGN.md 0a / 5.C14",
)

CHECKS["C06"] = dict(
    engine="symx+z3",
    technique="bounded symbolic execution (symx/z3): the suspension index at which the real extraction is performed is an unbounded z3 Int compared by the driver at every suspension of really running programs; oracle = an unobserved twin run, equality of repeated extractions, referrers / weak references after the results are dropped",
    text="For 12 (thorough 61) programs of the C01 grammar (generators, coroutines, async generators), every decision script and throw point, every suspension index, 1 or 2 extractions, trickery and referents mode: the observed run produces the same events, suspension offsets and outcome as the unobserved twin; two extractions of the unchanged target are equal; after dropping the results the managers reachable only from the value stack have no new holder (other than CPython's own f_locals cache on the target's frames), the frame's count is unchanged, returned Frame objects and finally the generator itself are collectable.",
    note="Possible with this engine because symx does not trace and its proxies never reach the observed objects. LOW SOLVER LEVERAGE. Outside: crashes that would only show many operations later, value-stack objects other than managers, extraction from inside a running frame, CPython 3.9-3.11.",
    ref="DESIGN.md 0a / 5.C06",
)

CHECKS["C07"] = dict(
    engine="symx+z3",
    technique="bounded symbolic execution (symx/z3) of the REAL BYTECODE of inspect_frame under a nondeterministic environment: every read of f_lasti / stacktop / owner / a value-stack slot answers from a symbolic world that may move (new position, stacktop, 'frame finished') before any read, except before a slot read that is separated from the preceding f_lasti check by GIL-atomic bytecode only (computed from the real code object on every run); plus the real unwrap_thread under a symbolic thread lifecycle, plus real parked threads with solver-chosen depth and nesting",
    text="PARTIAL CLAIM. (A) real threads parked in a body / inside __enter__ / inside __exit__ at depth 1..4 (thorough 7) with 0-2 managers per level, one or two threads: extract(thread) is exactly the thread's own frame chain, outermost first, with the managers of the event log per level, no warning; unstarted and finished threads give no frames; StackSlice(outer=a frame of another thread) is found there. (B) for every schedule of at most 2 (thorough 3) moves of the target among all positions of the code object: a snapshot is accepted only if every slot in it was read at the accepted position, it is slots 0..n-1 of one attempt, n derives from a stacktop read bracketed by two reads of the accepted position, the blocks are those of that position and a finished frame contributes no slots; a frame that never moves is accepted; every other outcome is AssertionError or (after 10 attempts) RuntimeError. (C) unwrap_thread reports a frame only if it is the thread's own, for every monotone lifecycle incl. ident reuse. NOT claimed: memory safety under real OS schedules (stale PyObject*, crashes), which depends on when CPython releases the GIL.",
    note="The environment of (B) replaces FrameObject.from_address, the InterpreterFrame fields, the ctypes.py_object array and sys.getrefcount; it is validated on every run against the real ctypes reads on a real suspended generator frame. The atomicity assumption (no GIL release between the f_lasti check and the slot read) is the one the source states; the check recomputes from the real bytecode that nothing but atomic instructions lies between them and fails as a harness error otherwise. Randomised stress and the 3.10 implementation are outside.",
    ref="DESIGN.md 0a / 5.C07",
)

NOT_APPLICABLE = {
}

PENDING_REASON = "check planned in DESIGN.md section 5 but not built yet at this commit"


def main() -> None:
    props = [json.loads(l)["id"] for l in open(os.path.join(ROOT, "properties.jsonl"))]
    checks = []
    for pid in props:
        c = CHECKS.get(pid)
        if not c:
            continue
        checks.append({
            "property_id": pid,
            "quick_cmd": f"./check {pid} --tier quick",
            "thorough_cmd": f"./check {pid} --tier thorough",
            "evidence_file": f"/verif/evidence/{pid}.json",
            "replay_cmd_template": f"./check {pid} --replay {{path}}",
            "engine": c["engine"],
            "level_claimed": {"category": "model_checking", "text": c["text"], "design_ref": c["ref"]},
            "level_note": c["note"],
            "technique": c["technique"],
        })
    na = []
    for pid in props:
        if pid in CHECKS:
            continue
        na.append({"property_id": pid, "reason": NOT_APPLICABLE.get(pid, PENDING_REASON)})
    man = {
        "version": 1,
        "setup_cmd": "./setup.sh",
        "hooks": {
            "guard": "STACKSCOPE_VERIF",
            "enable": "no source hooks are needed: checks rebind module-level dispatcher names of the imported /repo modules for the duration of one path; STACKSCOPE_VERIF=1 is exported by ./check but read by nothing in /repo",
            "baseline_off_cmd": "cd /repo && env -u STACKSCOPE_VERIF /venv/bin/python -m pytest -ra -q -p no:cacheprovider --timeout=900 --continue-on-collection-errors",
            "source_commits": [],
            "add_only": True,
        },
        "engines": [
            {"name": "symx", "path": "/verif/vlib/symx.py", "serves_properties": sorted(k for k, v in CHECKS.items() if "symx" in v["engine"]), "kind_free_text": SYMX},
            {"name": "crosshair", "path": "/verif/vlib/xhair.py", "serves_properties": sorted(k for k, v in CHECKS.items() if "crosshair" in v["engine"].lower()), "kind_free_text": XH},
        ],
        "checks": checks,
        "not_applicable": na,
        "notes": "Solver-based checking of the real code; see DESIGN.md. Exit 2 from a check = harness error (no verdict), never a VIOLATION line. known_findings.json lists genuine defects found (fixed ones suppress nothing).",
    }
    with open(os.path.join(ROOT, "MANIFEST.json"), "w") as f:
        json.dump(man, f, indent=1)
    print("manifest:", len(checks), "checks,", len(na), "not_applicable")


if __name__ == "__main__":
    main()
