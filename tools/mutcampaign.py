#!/usr/bin/env python3
"""tools/mutcampaign.py [--n N] [--seed S] [--files a.py,b.py] [--workers W]

Self-check of the checks: AST mutants of the library, on lines the existing suite covers.  A mutant that the
suite kills is of no interest (the property was settled by a unit test); one that survives the suite is run
against the quick checks mapped to its file, cheapest first, stopping at the first check that reports a
VIOLATION.  Everything happens in scratch worktrees of /repo HEAD (VERIF_REPO / VERIF_OUT); /repo and
/verif/evidence are never touched.  Results are appended to /verif/mutation/results.jsonl (one line per mutant)
so that a campaign can be resumed; survivors are triaged by hand (equivalent mutant / outside every property /
gap in a check) in /verif/mutation/TRIAGE.md.
"""
from __future__ import annotations

import argparse
import ast
import copy
import json
import os
import random
import shutil
import subprocess
import sys
import tempfile
import time
from concurrent.futures import ThreadPoolExecutor
from typing import Any, Dict, List, Optional, Tuple

REPO = "/repo"
OUTDIR = "/verif/mutation"
FILES = ["_extract.py", "_glue.py", "_lowlevel.py", "_lowlevel_cpython_311.py", "_types.py", "_customization.py", "_code_dispatch.py"]
CHECKS = {
    "_lowlevel.py": ["C08", "C01", "C20", "C02", "C06"],
    "_lowlevel_cpython_311.py": ["C07", "C01", "C06", "C02"],
    "_extract.py": ["C16", "C10", "C11", "C03", "C09", "C04", "C13", "C05", "C14", "C15"],
    "_glue.py": ["C15", "C14", "C16", "C09", "C11", "C04", "C03", "C17", "C07", "C05", "C13"],
    "_types.py": ["C19", "C18", "C16", "C06", "C10"],
    "_customization.py": ["C12", "C10", "C11", "C05"],
    "_code_dispatch.py": ["C12", "C10", "C11", "C17"],
}
CMP = {ast.Eq: ast.NotEq, ast.NotEq: ast.Eq, ast.Is: ast.IsNot, ast.IsNot: ast.Is, ast.Lt: ast.LtE, ast.LtE: ast.Lt,
       ast.Gt: ast.GtE, ast.GtE: ast.Gt, ast.In: ast.NotIn, ast.NotIn: ast.In}


def sh(cmd: str, **kw: Any) -> subprocess.CompletedProcess:
    return subprocess.run(cmd, shell=True, capture_output=True, text=True, **kw)


def covered_lines() -> Dict[str, List[int]]:
    cache = os.path.join(OUTDIR, "suite_coverage.json")
    head = sh(f"git -C {REPO} rev-parse HEAD").stdout.strip()
    if os.path.exists(cache):
        d = json.load(open(cache))
        if d.get("head") == head:
            return d["lines"]
    wt = tempfile.mkdtemp(prefix="verif-cov-")
    os.rmdir(wt)
    sh(f"git -C {REPO} worktree add -q --detach {wt} HEAD")
    try:
        sh(f"cd {wt} && /venv/bin/python -m coverage run --source=stackscope -m pytest -q -p no:cacheprovider --timeout=600; /venv/bin/python -m coverage json -o cov.json")
        cov = json.load(open(os.path.join(wt, "cov.json")))
        lines = {os.path.basename(k): v["executed_lines"] for k, v in cov["files"].items()}
    finally:
        sh(f"git -C {REPO} worktree remove --force {wt}")
    os.makedirs(OUTDIR, exist_ok=True)
    json.dump({"head": head, "lines": lines}, open(cache, "w"))
    return lines


class Sites(ast.NodeVisitor):
    """Enumerate (node path, operator name) mutation sites."""

    def __init__(self, covered: set, lines: List[str]):
        self.covered = covered
        self.lines = lines
        self.sites: List[Tuple[int, int, str, int]] = []     # (lineno, col, op, index among same-position sites)
        self._skip = 0

    def add(self, node: ast.AST, op: str) -> None:
        if self._skip or getattr(node, "lineno", None) not in self.covered:
            return
        text = self.lines[node.lineno - 1]
        if "version_info" in text or "sys.implementation" in text or "TYPE_CHECKING" in text or "pragma: no cover" in text:
            return
        self.sites.append((node.lineno, node.col_offset, op, 0))

    def visit_FunctionDef(self, node: Any) -> None:
        for st in node.body:
            self.visit(st)

    visit_AsyncFunctionDef = visit_FunctionDef

    def visit_AnnAssign(self, node: ast.AnnAssign) -> None:
        if node.value is not None:
            self.visit(node.value)

    def visit_Compare(self, node: ast.Compare) -> None:
        if type(node.ops[0]) in CMP:
            self.add(node, "cmp")
        self.generic_visit(node)

    def visit_BoolOp(self, node: ast.BoolOp) -> None:
        self.add(node, "boolop")
        self.generic_visit(node)

    def visit_UnaryOp(self, node: ast.UnaryOp) -> None:
        if isinstance(node.op, ast.Not):
            self.add(node, "unnot")
        self.generic_visit(node)

    def visit_If(self, node: ast.If) -> None:
        src = ast.unparse(node.test)
        if "TYPE_CHECKING" not in src and "version_info" not in src and "implementation" not in src:
            self.add(node, "ifneg")
        self.generic_visit(node)

    def visit_Constant(self, node: ast.Constant) -> None:
        if isinstance(node.value, bool):
            self.add(node, "boolflip")
        elif isinstance(node.value, int) and abs(node.value) <= 3:
            self.add(node, "intinc")

    def visit_Break(self, node: ast.Break) -> None:
        self.add(node, "brk")

    def visit_Continue(self, node: ast.Continue) -> None:
        self.add(node, "cont")

    def visit_Expr(self, node: ast.Expr) -> None:
        if isinstance(node.value, ast.Constant) and isinstance(node.value.value, str):
            return                                                    # docstring
        if isinstance(node.value, (ast.Call, ast.Await)):
            self.add(node, "delstmt")
        self.generic_visit(node)

    def visit_Assign(self, node: ast.Assign) -> None:
        if not (isinstance(node.targets[0], ast.Name) and node.targets[0].id.isupper()) and not (
                isinstance(node.targets[0], ast.Name) and node.targets[0].id == "__all__"):
            if isinstance(node.targets[0], ast.Attribute) or isinstance(node.targets[0], ast.Subscript):
                self.add(node, "delstmt")
        self.generic_visit(node)

    def visit_AugAssign(self, node: ast.AugAssign) -> None:
        self.add(node, "delstmt")
        self.generic_visit(node)

    def visit_BinOp(self, node: ast.BinOp) -> None:
        if isinstance(node.op, (ast.Add, ast.Sub)):
            self.add(node, "addsub")
        self.generic_visit(node)


def find_node(tree: ast.AST, site: Tuple[int, int, str, int]) -> Optional[ast.AST]:
    kinds = {"cmp": ast.Compare, "boolop": ast.BoolOp, "unnot": ast.UnaryOp, "ifneg": ast.If, "boolflip": ast.Constant, "intinc": ast.Constant,
             "brk": ast.Break, "cont": ast.Continue, "delstmt": (ast.Expr, ast.Assign, ast.AugAssign), "addsub": ast.BinOp}
    for n in ast.walk(tree):
        if isinstance(n, kinds[site[2]]) and getattr(n, "lineno", None) == site[0] and getattr(n, "col_offset", None) == site[1]:
            if site[2] == "unnot" and not isinstance(n.op, ast.Not):  # type: ignore[attr-defined]
                continue
            return n
    return None


def splice(src: str, node: ast.AST, text: str) -> str:
    """Replace exactly the source segment of `node` (the rest of the file, comments and layout included, is untouched:
    a whole-module ast.unparse under 3.12 emits PEP 701 f-strings that the CPython 3.11 leg cannot parse)."""
    lines = src.splitlines(keepends=True)
    # col offsets are in UTF-8 bytes
    def off(lineno: int, col: int) -> int:
        return sum(len(l.encode()) for l in lines[: lineno - 1]) + col
    b = src.encode()
    return (b[: off(node.lineno, node.col_offset)] + text.encode() + b[off(node.end_lineno, node.end_col_offset):]).decode()  # type: ignore[attr-defined]


def replacement(src: str, node: ast.AST, op: str) -> Tuple[ast.AST, str]:
    seg = lambda n: ast.get_source_segment(src, n) or ast.unparse(n)
    if op == "cmp":
        n = copy.deepcopy(node)
        n.ops[0] = CMP[type(n.ops[0])]()  # type: ignore[attr-defined]
        return node, "(" + ast.unparse(n) + ")"
    if op == "boolop":
        n = copy.deepcopy(node)
        n.op = ast.Or() if isinstance(n.op, ast.And) else ast.And()  # type: ignore[attr-defined]
        return node, "(" + ast.unparse(n) + ")"
    if op == "unnot":
        return node, "(" + seg(node.operand) + ")"  # type: ignore[attr-defined]
    if op == "ifneg":
        return node.test, "not (" + seg(node.test) + ")"  # type: ignore[attr-defined]
    if op == "boolflip":
        return node, repr(not node.value)  # type: ignore[attr-defined]
    if op == "intinc":
        return node, repr(node.value + 1)  # type: ignore[attr-defined]
    if op == "brk":
        return node, "continue"
    if op == "cont":
        return node, "break"
    if op == "delstmt":
        return node, "pass"
    if op == "addsub":
        n = copy.deepcopy(node)
        n.op = ast.Sub() if isinstance(n.op, ast.Add) else ast.Add()  # type: ignore[attr-defined]
        return node, "(" + ast.unparse(n) + ")"
    raise ValueError(op)


def enumerate_sites(fname: str, covered: List[int]) -> List[Tuple[int, int, str, int]]:
    src = open(os.path.join(REPO, "stackscope", fname)).read()
    tree = ast.parse(src)
    v = Sites(set(covered), src.splitlines())
    v.visit(tree)
    seen = set()
    out = []
    for s in v.sites:
        if s[:3] not in seen:
            seen.add(s[:3])
            out.append(s)
    return out


def mutant_source(fname: str, site: Tuple[int, int, str, int]) -> Optional[Tuple[str, str]]:
    src = open(os.path.join(REPO, "stackscope", fname)).read()
    tree = ast.parse(src)
    node = find_node(tree, site)
    if node is None:
        return None
    target, text = replacement(src, node, site[2])
    if ("f'" in text or 'f"' in text) and site[2] not in ("delstmt",):
        return None            # an unparsed f-string may not parse on the 3.11 leg
    new = splice(src, target, text)
    try:
        ast.parse(new)
    except SyntaxError:
        return None
    line = src.splitlines()[site[0] - 1].strip()
    return new, line


def run_mutant(job: Dict[str, Any]) -> Dict[str, Any]:
    fname, site = job["file"], tuple(job["site"])
    res: Dict[str, Any] = {"id": job["id"], "file": fname, "line": site[0], "col": site[1], "op": site[2]}
    ms = mutant_source(fname, site)  # type: ignore[arg-type]
    if ms is None:
        res["status"] = "not-applied"
        return res
    text, line = ms
    res["source_line"] = line
    wt = tempfile.mkdtemp(prefix="verif-mutc-wt-")
    os.rmdir(wt)
    out = tempfile.mkdtemp(prefix="verif-mutc-out-")
    sh(f"git -C {REPO} worktree add -q --detach {wt} HEAD")
    try:
        # normalise: the unparsed ORIGINAL must pass the suite as well (it does; checked once per file by the caller)
        open(os.path.join(wt, "stackscope", fname), "w").write(text)
        r = sh(f"cd {wt} && timeout 300 /venv/bin/python -m pytest -q -x -p no:cacheprovider --timeout=120 2>&1 | tail -1")
        last = r.stdout.strip()
        if " passed" not in last or "failed" in last or "error" in last:
            res["status"] = "killed-by-suite"
            return res
        env = dict(os.environ, VERIF_REPO=wt, VERIF_OUT=out)
        t0 = time.time()
        for pid in CHECKS[fname]:
            r = subprocess.run(["/verif/check", pid], capture_output=True, text=True, cwd="/verif", env=env, timeout=3000)
            viol = [l for l in r.stdout.splitlines() if l.startswith("VIOLATION")]
            if viol or r.returncode == 1:
                res["status"] = "killed-by-check"
                res["check"] = pid
                det = [l for l in r.stdout.splitlines() if l.strip().startswith("obligation=")]
                res["detail"] = det[0].strip()[:240] if det else ""
                break
            if r.returncode == 2:
                # a harness error (model validation failed, canary...) is not a verdict, but it is not silence either
                res.setdefault("harness_errors", []).append(pid)
        else:
            res["status"] = "NO-VERDICT(harness error only)" if res.get("harness_errors") else "SURVIVED"
        res["check_seconds"] = round(time.time() - t0)
        return res
    finally:
        sh(f"git -C {REPO} worktree remove --force {wt}")
        shutil.rmtree(out, ignore_errors=True)


def main() -> None:
    ap = argparse.ArgumentParser()
    ap.add_argument("--n", type=int, default=40)
    ap.add_argument("--seed", type=int, default=1)
    ap.add_argument("--files", default=",".join(FILES))
    ap.add_argument("--workers", type=int, default=2)
    a = ap.parse_args()
    os.makedirs(OUTDIR, exist_ok=True)
    cov = covered_lines()
    done = set()
    resf = os.path.join(OUTDIR, "results.jsonl")
    if os.path.exists(resf):
        for l in open(resf):
            done.add(json.loads(l)["id"])
    jobs = []
    rnd = random.Random(a.seed)
    for f in a.files.split(","):
        sites = enumerate_sites(f, cov.get(f, []))
        rnd.shuffle(sites)
        for s in sites[: a.n]:
            mid = f"{f}:{s[0]}:{s[1]}:{s[2]}"
            if mid not in done:
                jobs.append({"id": mid, "file": f, "site": list(s)})
        print(f"{f}: {len(sites)} sites on suite-covered lines, {min(a.n, len(sites))} sampled", flush=True)
    with ThreadPoolExecutor(a.workers) as ex:
        for res in ex.map(run_mutant, jobs):
            with open(resf, "a") as fh:
                fh.write(json.dumps(res) + "\n")
            print(res["id"], res["status"], res.get("check", ""), "|", res.get("source_line", "")[:90], flush=True)


if __name__ == "__main__":
    main()
