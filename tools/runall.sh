#!/bin/bash
# run every check of MANIFEST.json (quick or $1 tier) sequentially; print one line per check
cd /verif
TIER=${1:-quick}
for id in $(.venv/bin/python -c "import json; print(' '.join(c['property_id'] for c in json.load(open('MANIFEST.json'))['checks']))"); do
  s=$(date +%s)
  out=$(./check $id --tier $TIER 2>/tmp/runall.$id.err); rc=$?
  e=$(( $(date +%s) - s ))
  echo "$id rc=$rc ${e}s $(echo "$out" | grep -c '^VIOLATION') viol, $(echo "$out" | grep -c '^KNOWN-FINDING') known | $(echo "$out" | grep '^\[' | tail -1)"
done
