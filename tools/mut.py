#!/usr/bin/env python3
"""tools/mut.py <file-rel-to-repo> <old> <new> -- <PID>...  [--suite]
Apply one textual edit in a SCRATCH WORKTREE of /repo HEAD, run the suite (optional) and the named checks
(quick) against that worktree (VERIF_REPO / VERIF_OUT), then remove the worktree.  /repo is never touched."""
import os
import shutil
import subprocess
import sys
import tempfile

args = sys.argv[1:]
suite = "--suite" in args
args = [a for a in args if a != "--suite"]
sep = args.index("--")
f, old, new = args[:sep]
pids = args[sep + 1:]
wt = tempfile.mkdtemp(prefix="verif-mut-wt-")
os.rmdir(wt)
out = tempfile.mkdtemp(prefix="verif-mut-out-")
subprocess.run(["git", "-C", "/repo", "worktree", "add", "-q", "--detach", wt, "HEAD"], check=True)
try:
    p = os.path.join(wt, f)
    s = open(p).read()
    if s.count(old) != 1:
        print(f"pattern occurs {s.count(old)} times", file=sys.stderr)
        sys.exit(3)
    open(p, "w").write(s.replace(old, new))
    if suite:
        r = subprocess.run(f"cd {wt} && timeout 600 /venv/bin/python -m pytest -q -x -p no:cacheprovider --timeout=300 2>&1 | tail -2",
                           shell=True, capture_output=True, text=True)
        print("SUITE:", r.stdout.strip().splitlines()[-1] if r.stdout.strip() else r.stderr[-200:])
    env = dict(os.environ, VERIF_REPO=wt, VERIF_OUT=out)
    for pid in pids:
        r = subprocess.run(["/verif/check", pid], capture_output=True, text=True, cwd="/verif", env=env)
        viol = [l for l in r.stdout.splitlines() if l.startswith("VIOLATION")]
        last = r.stdout.strip().splitlines()[-1] if r.stdout.strip() else ""
        print(f"{pid}: exit={r.returncode} violations={len(viol)} | {last}")
        if r.returncode == 2:
            print(r.stderr[-1500:])
finally:
    subprocess.run(["git", "-C", "/repo", "worktree", "remove", "--force", wt])
    shutil.rmtree(out, ignore_errors=True)
