#!/usr/bin/env python3
"""tools/mut.py <file-rel-to-/repo> <old> <new> -- <PID>...  [--suite]
Apply one textual edit to /repo, run the named checks (quick), restore."""
import subprocess
import sys

args = sys.argv[1:]
suite = "--suite" in args
args = [a for a in args if a != "--suite"]
sep = args.index("--")
f, old, new = args[:sep]
pids = args[sep + 1:]
p = "/repo/" + f
s = open(p).read()
if s.count(old) != 1:
    print(f"pattern occurs {s.count(old)} times", file=sys.stderr)
    sys.exit(3)
open(p, "w").write(s.replace(old, new))
import os, shutil, tempfile
keep = tempfile.mkdtemp(prefix="verif-mut-")
for sub in ("evidence", "replays"):
    if os.path.isdir("/verif/" + sub):
        shutil.copytree("/verif/" + sub, keep + "/" + sub)
try:
    if suite:
        r = subprocess.run("cd /repo && timeout 600 /venv/bin/python -m pytest -q -x -p no:cacheprovider --timeout=300 2>&1 | tail -2",
                           shell=True, capture_output=True, text=True)
        print("SUITE:", r.stdout.strip().splitlines()[-1] if r.stdout.strip() else r.stderr[-200:])
    for pid in pids:
        r = subprocess.run(["/verif/check", pid], capture_output=True, text=True, cwd="/verif")
        viol = [l for l in r.stdout.splitlines() if l.startswith("VIOLATION")]
        last = r.stdout.strip().splitlines()[-1] if r.stdout.strip() else ""
        print(f"{pid}: exit={r.returncode} violations={len(viol)} | {last}")
        if r.returncode == 2:
            print(r.stderr[-1500:])
finally:
    subprocess.run(["git", "-C", "/repo", "checkout", "--", f], check=True)
    # evidence / replay files written while the mutant was applied describe the mutant, not the tree
    for sub in ("evidence", "replays"):
        shutil.rmtree("/verif/" + sub, ignore_errors=True)
        if os.path.isdir(keep + "/" + sub):
            shutil.copytree(keep + "/" + sub, "/verif/" + sub)
    shutil.rmtree(keep, ignore_errors=True)
