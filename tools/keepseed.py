#!/usr/bin/env python3
"""tools/keepseed.py <name> <seed-dir> <property> <caught-by> <needs...>  -- store a confirmed seeded change."""
import json, os, shutil, sys
name, src, prop, caught = sys.argv[1:5]
needs = " ".join(sys.argv[5:])
d = f"/verif/seeded/{name}"
os.makedirs(d, exist_ok=True)
for f in ("patch.diff", "demo.py", "notes.md"):
    if os.path.exists(os.path.join(src, f)):
        shutil.copy(os.path.join(src, f), os.path.join(d, f))
meta = {"id": name, "property": prop, "needs_to_manifest": needs, "author": "independent sub-agent given only the property text and a scratch worktree",
        "confirmed": "tools/seedtest.sh: fresh worktree of /repo HEAD; existing suite passes with the patch (52 passed, 1 skipped); demo.py exits 1 with the patch and 0 without",
        "checks_run": f"git -C /repo apply patch.diff; ./check {caught}; git -C /repo checkout -- .",
        "caught_by": caught}
json.dump(meta, open(os.path.join(d, "meta.json"), "w"), indent=1)
print("kept", d)
