#!/bin/bash
# tools/seedtest.sh <seed-dir containing patch.diff + demo.py> <CHECK-ID>...
# 1. in a fresh scratch worktree of /repo: apply patch, run the suite (must pass), run the demo (must fail);
#    without the patch the demo must pass.  2. apply the patch to /repo, run the named checks, undo.
set -u
SEED=$(readlink -f "$1"); shift
WT=$(mktemp -d /tmp/seedverify.XXXXXX)
rmdir "$WT"
git -C /repo worktree add -q --detach "$WT" HEAD || exit 3
cleanup() { git -C /repo worktree remove --force "$WT" >/dev/null 2>&1; git -C /repo checkout -- . ; }
trap cleanup EXIT
mkdir -p "$WT/_seed"; cp "$SEED/demo.py" "$WT/_seed/demo.py"
cd "$WT"
/venv/bin/python _seed/demo.py >/dev/null 2>&1; echo "demo without patch: exit $?  (want 0)"
git apply "$SEED/patch.diff" || { echo "patch does not apply"; exit 3; }
timeout 900 /venv/bin/python -m pytest -q -p no:cacheprovider --timeout=600 2>&1 | tail -1
/venv/bin/python _seed/demo.py >/dev/null 2>&1; echo "demo with patch: exit $?  (want 1)"
cd /verif
git -C /repo apply "$SEED/patch.diff" || exit 3
KEEP=$(mktemp -d /tmp/seedkeep.XXXXXX); cp -r /verif/evidence "$KEEP/" 2>/dev/null; cp -r /verif/replays "$KEEP/" 2>/dev/null
for id in "$@"; do
  out=$(timeout 3000 ./check "$id" 2>&1); rc=$?
  echo "$id: exit=$rc violations=$(echo "$out" | grep -c '^VIOLATION') | $(echo "$out" | grep '^\[' | tail -1)"
  echo "$out" | grep -A1 '^VIOLATION' | grep 'obligation=' | sort | uniq -c | sort -rn | head -3
  [ $rc -eq 2 ] && echo "$out" | grep HARNESS-ERROR | head -3
done
git -C /repo checkout -- .
rm -rf /verif/evidence /verif/replays; cp -r "$KEEP/evidence" /verif/ 2>/dev/null; cp -r "$KEEP/replays" /verif/ 2>/dev/null; rm -rf "$KEEP"
