#!/bin/bash
# tools/seedtest.sh <seed-dir containing patch.diff + demo.py> <CHECK-ID>...
# In a fresh scratch worktree of /repo HEAD: the demo must pass without the patch; with the patch the suite must
# pass and the demo must fail; then the named checks are run AGAINST THE PATCHED WORKTREE (VERIF_REPO), writing
# their evidence/replays to a scratch directory (VERIF_OUT).  /repo and /verif/evidence are never touched.
set -u
SEED=$(readlink -f "$1"); shift
WT=$(mktemp -d /tmp/seedverify.XXXXXX); rmdir "$WT"
OUT=$(mktemp -d /tmp/seedout.XXXXXX)
git -C /repo worktree add -q --detach "$WT" HEAD || exit 3
cleanup() { git -C /repo worktree remove --force "$WT" >/dev/null 2>&1; rm -rf "$OUT"; }
trap cleanup EXIT
mkdir -p "$WT/_seed"; cp "$SEED/demo.py" "$WT/_seed/demo.py"
cd "$WT"
/venv/bin/python _seed/demo.py >/dev/null 2>&1; echo "demo without patch: exit $?  (want 0)"
git apply "$SEED/patch.diff" || { echo "patch does not apply"; exit 3; }
timeout 900 /venv/bin/python -m pytest -q -p no:cacheprovider --timeout=600 2>&1 | tail -1
/venv/bin/python _seed/demo.py >/dev/null 2>&1; echo "demo with patch: exit $?  (want 1)"
cd /verif
for id in "$@"; do
  out=$(VERIF_REPO="$WT" VERIF_OUT="$OUT" timeout 3000 ./check "$id" 2>&1); rc=$?
  echo "$id: exit=$rc violations=$(echo "$out" | grep -c '^VIOLATION') | $(echo "$out" | grep '^\[' | tail -1)"
  echo "$out" | grep -A1 '^VIOLATION' | grep 'obligation=' | cut -c1-260 | sort | uniq -c | sort -rn | head -3
  [ $rc -eq 2 ] && echo "$out" | grep HARNESS-ERROR | head -3 | cut -c1-400
done
