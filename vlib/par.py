"""Run symx shards in a process pool and fold the statistics."""
from __future__ import annotations

import multiprocessing as mp
import os
import time
import traceback
from typing import Any, Callable, Dict, List, Tuple


def _worker(args: Tuple[str, str, Any]) -> Dict[str, Any]:
    modname, fn, shard = args
    import importlib

    try:
        mod = importlib.import_module(modname)
        return getattr(mod, fn)(shard)
    except BaseException as ex:  # noqa
        return {"shard": shard, "crash": f"{ex!r}\n{traceback.format_exc()}"}


def _run_pool(jobs: List[Tuple[str, str, Any]], procs: int, timeout: float) -> List[Tuple[str, Dict[str, Any]]]:
    """Robust against workers that die (OOM under RLIMIT_AS, crash) or hang: each job is a
    future; a broken pool or a timeout turns the unfinished jobs into crash records."""
    import concurrent.futures as cf

    out: List[Tuple[str, Dict[str, Any]]] = []
    ctx = mp.get_context("fork")
    ex = cf.ProcessPoolExecutor(max_workers=procs, mp_context=ctx)
    futs = {ex.submit(_worker, j): j for j in jobs}
    deadline = time.monotonic() + timeout
    try:
        pending = set(futs)
        while pending:
            left = deadline - time.monotonic()
            if left <= 0:
                break
            done, pending = cf.wait(pending, timeout=min(left, 5.0), return_when=cf.FIRST_COMPLETED)
            for f in done:
                j = futs[f]
                try:
                    out.append((j[1], f.result()))
                except BaseException as e:  # noqa  (BrokenProcessPool etc.)
                    out.append((j[1], {"shard": j[2] if not isinstance(j[2], dict) else j[2].get("name", "?"),
                                       "crash": f"worker died: {e!r}", "died": True}))
        for f in pending:
            j = futs[f]
            out.append((j[1], {"shard": "?", "crash": f"shard exceeded the {timeout:.0f}s wall budget", "timeout": True}))
    finally:
        clean = len(out) == len(jobs) and not any(r.get("died") or r.get("timeout") for _, r in out)
        if clean:
            try:
                ex.shutdown(wait=True)
            except Exception:
                pass
        else:
            # a hung or dead worker: do not wait for it
            for p_ in list((getattr(ex, "_processes", None) or {}).values()):
                try:
                    p_.kill()
                except Exception:
                    pass
            try:
                ex.shutdown(wait=False, cancel_futures=True)
            except Exception:
                pass
    return out


def run_shards(modname: str, fn: str, shards: List[Any], procs: int = 0, timeout: float = 3000.0) -> List[Dict[str, Any]]:
    procs = procs or min(len(shards), int(os.environ.get("VERIF_PROCS", "16")))
    return [r for _, r in _run_pool([(modname, fn, s) for s in shards], max(procs, 1), timeout)]


def run_mixed(modname: str, jobs: List[Tuple[str, Any]], procs: int = 0, timeout: float = 3000.0) -> List[Tuple[str, Dict[str, Any]]]:
    """jobs = [(function name, shard)]; returns [(function name, result)] (unordered)."""
    procs = procs or min(len(jobs), int(os.environ.get("VERIF_PROCS", "16")))
    return _run_pool([(modname, fn, s) for fn, s in jobs], max(procs, 1), timeout)


def shard_result(eng: Any, **kw: Any) -> Dict[str, Any]:
    d = {
        "paths": eng.paths,
        "queries": eng.queries,
        "solver_time": eng.solver_time,
        "exhausted": eng.exhausted,
        "inconclusive": sorted(set(eng.inconclusive))[:5],
        "path_exceptions": getattr(eng, "n_exceptions", 0),
        "path_exception_samples": list(getattr(eng, "exceptions", [])),
    }
    d.update(kw)
    return d


def fold(rep: Any, name: str, results: List[Dict[str, Any]]) -> List[Dict[str, Any]]:
    """Fold shard dicts into obligation `name`; returns list of counterexample dicts."""
    cex: List[Dict[str, Any]] = []
    for r in results:
        if "crash" in r:
            rep.harness_error(f"{name} shard {r.get('shard')!r} crashed: {r['crash']}")
            continue
        if r.get("path_exceptions"):
            # paths that died in an exception the harness did not account for were not checked: no verdict
            rep.harness_error(f"{name} shard {r.get('shard')!r}: {r['path_exceptions']} path(s) ended in an unexpected exception, e.g. {r['path_exception_samples'][:2]}")
        ok = r["exhausted"] and not r["inconclusive"]
        rep.add_counts(name, r["paths"], r["queries"], r["solver_time"],
                       status="discharged" if ok else "inconclusive", reached=r.get("reached", r["paths"]))
        if not ok:
            rep.inconclusive.append(f"{name} shard {r.get('shard')!r}: {r['inconclusive'] or 'not exhausted'}")
        for s in r.get("samples", []):
            rep.sample(s)
        for k, v in r.get("extra", {}).items():
            rep.extra[k] = rep.extra.get(k, 0) + v
        cex.extend(r.get("cex", []))
    return cex
