"""Run symx shards in a process pool and fold the statistics."""
from __future__ import annotations

import multiprocessing as mp
import os
import time
import traceback
from typing import Any, Callable, Dict, List, Tuple


def _worker(args: Tuple[str, str, Any]) -> Dict[str, Any]:
    modname, fn, shard = args
    import importlib

    try:
        mod = importlib.import_module(modname)
        return getattr(mod, fn)(shard)
    except BaseException as ex:  # noqa
        return {"shard": shard, "crash": f"{ex!r}\n{traceback.format_exc()}"}


def run_shards(modname: str, fn: str, shards: List[Any], procs: int = 0) -> List[Dict[str, Any]]:
    procs = procs or min(len(shards), int(os.environ.get("VERIF_PROCS", "16")))
    if procs <= 1 or len(shards) == 1:
        return [_worker((modname, fn, s)) for s in shards]
    ctx = mp.get_context("fork")
    with ctx.Pool(procs, maxtasksperchild=1) as pool:
        return list(pool.imap_unordered(_worker, [(modname, fn, s) for s in shards], chunksize=1))


def shard_result(eng: Any, **kw: Any) -> Dict[str, Any]:
    d = {
        "paths": eng.paths,
        "queries": eng.queries,
        "solver_time": eng.solver_time,
        "exhausted": eng.exhausted,
        "inconclusive": sorted(set(eng.inconclusive))[:5],
    }
    d.update(kw)
    return d


def fold(rep: Any, name: str, results: List[Dict[str, Any]]) -> List[Dict[str, Any]]:
    """Fold shard dicts into obligation `name`; returns list of counterexample dicts."""
    cex: List[Dict[str, Any]] = []
    for r in results:
        if "crash" in r:
            rep.harness_error(f"{name} shard {r.get('shard')!r} crashed: {r['crash']}")
            continue
        ok = r["exhausted"] and not r["inconclusive"]
        rep.add_counts(name, r["paths"], r["queries"], r["solver_time"],
                       status="discharged" if ok else "inconclusive", reached=r.get("reached", r["paths"]))
        if not ok:
            rep.inconclusive.append(f"{name} shard {r.get('shard')!r}: {r['inconclusive'] or 'not exhausted'}")
        for s in r.get("samples", []):
            rep.sample(s)
        for k, v in r.get("extra", {}).items():
            rep.extra[k] = rep.extra.get(k, 0) + v
        cex.extend(r.get("cex", []))
    return cex
