"""./check <ID> [--tier quick|thorough] [--replay file]"""
from __future__ import annotations

import argparse
import importlib
import json
import os
import resource
import sys
import warnings

ROOT = os.path.dirname(os.path.dirname(os.path.abspath(__file__)))
sys.path.insert(0, ROOT)

from vlib.report import Report, EXIT_HARNESS  # noqa: E402

PY311 = "/opt/veriftools/pyvenv/bin/python"          # CPython 3.11.7 with z3 (tooling venv); stackscope via PYTHONPATH=/repo
LEG311 = {"C01", "C02", "C08", "C20"}


def main() -> int:
    ap = argparse.ArgumentParser()
    ap.add_argument("pid")
    ap.add_argument("--tier", default=os.environ.get("VERIF_TIER", "quick"), choices=["quick", "thorough"])
    ap.add_argument("--replay")
    args = ap.parse_args()
    seed = int(os.environ.get("VERIF_SEED", "0") or 0)
    # a mutant can make the library diverge: bound memory for the whole check
    lim = 6 * 1024**3
    try:
        resource.setrlimit(resource.RLIMIT_AS, (lim, lim))
    except Exception:
        pass
    os.environ.setdefault("STACKSCOPE_VERIF", "1")
    os.environ["VERIF_TIER_EFFECTIVE"] = args.tier  # read by harness shards (forked workers) to scale their budgets
    pid = args.pid.upper()
    try:
        mod = importlib.import_module(f"harness.{pid.lower()}")
    except Exception as ex:
        import traceback

        traceback.print_exc()
        print(f"HARNESS-ERROR property={pid}: cannot import harness ({ex!r})", file=sys.stderr)
        return EXIT_HARNESS
    if args.replay:
        with open(args.replay) as f:
            rec = json.load(f)
        want = rec.get("interpreter")
        have = ".".join(map(str, sys.version_info[:2]))
        if want and want != have and want == "3.11" and os.path.exists(PY311):
            import subprocess

            env = dict(os.environ, PYTHONPATH=os.environ.get("VERIF_REPO", "/repo") + ":" + ROOT, VERIF_LEG="311")
            return subprocess.run([PY311, "-m", "vlib.main", pid, "--replay", args.replay], cwd=ROOT, env=env).returncode
        out = mod.replay(rec["case"])
        print(json.dumps(out, indent=1, default=repr))
        if out.get("status") == "reproduces":
            print(f"VIOLATION property={pid} replay={args.replay}")
            return 1
        return 0
    rep = Report(pid, args.tier, seed, mod)
    # the version-specific properties get a second leg under CPython 3.11, run concurrently
    # (quick tier: every 3rd program of the corpus and no lemma; thorough: everything)
    child = None
    if pid in LEG311 and not os.environ.get("VERIF_LEG"):
        if os.path.exists(PY311):
            import subprocess
            import tempfile

            env = dict(os.environ, PYTHONPATH=os.environ.get("VERIF_REPO", "/repo") + ":" + ROOT, VERIF_LEG="311", VERIF_TIER=args.tier,
                       VERIF_CORPUS_STRIDE="3" if args.tier == "quick" else "1", VERIF_PROCS="8")
            out_f = tempfile.TemporaryFile(mode="w+")
            err_f = tempfile.TemporaryFile(mode="w+")
            child = (subprocess.Popen([PY311, "-W", "ignore::DeprecationWarning", "-m", "vlib.main", pid, "--tier", args.tier],
                                      cwd=ROOT, env=env, stdout=out_f, stderr=err_f, text=True), out_f, err_f)
        else:
            rep.mark_inconclusive("[CPython 3.11 leg]", f"{PY311} not present")
    try:
        mod.run(rep, args.tier, seed)
    except Exception as ex:
        import traceback

        traceback.print_exc()
        rep.harness_error(f"harness crashed: {ex!r}")
    if child is not None:
        proc, out_f, err_f = child
        try:
            rc = proc.wait(timeout=3300)
            out_f.seek(0)
            err_f.seek(0)
            rep.merge_leg("311", rc, out_f.read(), err_f.read())
        except Exception as ex:
            proc.kill()
            rep.mark_inconclusive("[CPython 3.11 leg]", f"did not finish: {ex!r}")
    return rep.finish()


if __name__ == "__main__":
    sys.exit(main())
