"""Access to /repo's current source: AST slicing of the pure halves of
inspect_frame (regenerated from the working tree on every run)."""
from __future__ import annotations

import ast
import inspect
import sys
from typing import Any, Callable, Dict, Tuple


class CannotEncode(Exception):
    """The expected statement shape is gone: the check exits 2, it does not guess."""


def _module_311() -> Any:
    if sys.version_info < (3, 11):
        raise CannotEncode("3.11+ leg only")
    from stackscope import _lowlevel_cpython_311 as m

    return m


def _contains_call(node: ast.AST, name: str) -> bool:
    for n in ast.walk(node):
        if isinstance(n, ast.Call) and isinstance(n.func, ast.Name) and n.func.id == name:
            return True
    return False


def _func(tree: ast.Module, name: str) -> ast.FunctionDef:
    for n in tree.body:
        if isinstance(n, ast.FunctionDef) and n.name == name:
            return n
    raise CannotEncode(f"function {name} not found")


def _compile(fn: ast.FunctionDef, mod: Any, extra: Dict[str, Any]) -> Callable[..., Any]:
    m = ast.Module(body=[fn], type_ignores=[])
    ast.fix_missing_locations(m)
    g = dict(mod.__dict__)
    g.update(extra)
    code = compile(m, f"<slice of {mod.__file__}>", "exec")
    exec(code, g)
    return g[fn.name]


def slice_chain_walk() -> Tuple[Callable[[Any, Any], Any], Tuple[int, int]]:
    """The handler-chain walk of inspect_frame as `chain_walk(co, lasti) -> FrameDetails`.
    Located by shape: from the first top-level Assign whose value calls
    _parse_exception_table to the statement before `return details`."""
    mod = _module_311()
    src = inspect.getsource(mod)
    tree = ast.parse(src)
    f = _func(tree, "inspect_frame")
    start = None
    for i, st in enumerate(f.body):
        if isinstance(st, ast.Assign) and _contains_call(st.value, "_parse_exception_table"):
            start = i
            break
    if start is None:
        raise CannotEncode("chain walk: no top-level assignment from _parse_exception_table in inspect_frame")
    end = None
    for i in range(len(f.body) - 1, start, -1):
        if isinstance(f.body[i], ast.Return):
            end = i
            break
    if end is None:
        raise CannotEncode("chain walk: no return statement")
    body = f.body[start:end]
    if not any(isinstance(s, ast.While) for s in body):
        raise CannotEncode("chain walk: expected a while loop")
    ret = f.body[end]
    pre = ast.parse("details = FrameDetails()").body
    new = ast.FunctionDef(
        name="chain_walk",
        args=ast.arguments(posonlyargs=[], args=[ast.arg("co"), ast.arg("lasti")], kwonlyargs=[], kw_defaults=[], defaults=[]),
        body=pre + body + [ret], decorator_list=[], type_params=[],
    )
    from stackscope import _lowlevel

    fn = _compile(new, mod, {"_parse_exception_table": _lowlevel._parse_exception_table})
    return fn, (body[0].lineno, ret.lineno)


def slice_depth_trim() -> Tuple[Callable[[Any, Any], Any], Tuple[int, int]]:
    """The running-frame depth computation: the `for ... in _parse_exception_table(co): ... else:`."""
    mod = _module_311()
    src = inspect.getsource(mod)
    tree = ast.parse(src)
    f = _func(tree, "inspect_frame")
    target = None
    for n in ast.walk(f):
        if isinstance(n, ast.For) and n.orelse and _contains_call(n.iter, "_parse_exception_table"):
            target = n
            break
    if target is None:
        raise CannotEncode("depth trim: no for/else over _parse_exception_table")
    assigned = {t.id for s in ast.walk(target) if isinstance(s, ast.Assign) for t in s.targets if isinstance(t, ast.Name)}
    if "handler_depth" not in assigned:
        raise CannotEncode("depth trim: handler_depth not assigned")
    ret = ast.parse("return handler_depth").body
    new = ast.FunctionDef(
        name="depth_trim",
        args=ast.arguments(posonlyargs=[], args=[ast.arg("co"), ast.arg("lasti_before")], kwonlyargs=[], kw_defaults=[], defaults=[]),
        body=[target] + ret, decorator_list=[], type_params=[],
    )
    from stackscope import _lowlevel

    fn = _compile(new, mod, {"_parse_exception_table": _lowlevel._parse_exception_table})
    return fn, (target.lineno, target.end_lineno or target.lineno)
