"""Result collection, known-finding handling, evidence and exit codes."""
from __future__ import annotations

import hashlib
import json
import os
import sys
import time
import traceback
from typing import Any, Callable, Dict, List, Optional

ROOT = os.path.dirname(os.path.dirname(os.path.abspath(__file__)))
OUT = os.environ.get("VERIF_OUT") or ROOT   # where evidence/ and replays/ are written
EXIT_OK, EXIT_VIOLATION, EXIT_HARNESS = 0, 1, 2


def load_known() -> List[Dict[str, Any]]:
    p = os.path.join(ROOT, "known_findings.json")
    if not os.path.exists(p):
        return []
    with open(p) as f:
        return json.load(f)["findings"]


def _jsonable(x: Any) -> Any:
    try:
        json.dumps(x)
        return x
    except Exception:
        if isinstance(x, dict):
            return {str(k): _jsonable(v) for k, v in x.items()}
        if isinstance(x, (list, tuple, set)):
            return [_jsonable(v) for v in x]
        return repr(x)


class HarnessError(Exception):
    pass


class Report:
    def __init__(self, pid: str, tier: str, seed: int, module: Any):
        self.pid = pid
        self.tier = tier
        self.seed = seed
        self.module = module
        self.t0 = time.monotonic()
        self.engine_name = ""
        self.functions: List[str] = []
        self.bounds: Dict[str, Any] = {}
        self.outside: List[str] = []
        self.stubs: List[str] = []
        self.assumptions: List[str] = []
        self.obligations: Dict[str, Dict[str, Any]] = {}
        self.samples: List[Any] = []
        self.paths = 0
        self.queries = 0
        self.solver_time = 0.0
        self.replays = 0
        self.violations: List[Dict[str, Any]] = []
        self.known_hits: Dict[str, List[Dict[str, Any]]] = {}
        self.unreachable = 0
        self.harness_errors: List[str] = []
        self.inconclusive: List[str] = []
        self.extra: Dict[str, Any] = {}
        self._seen_cases: set = set()
        self.known = [k for k in load_known() if k["property"] == pid or pid in k.get("also", [])]
        # a version leg (VERIF_LEG=311: the same check under another interpreter) keeps its own files
        self.leg = os.environ.get("VERIF_LEG", "")
        self.filetag = pid + (f".leg{self.leg}" if self.leg else "")
        d = os.path.join(OUT, "replays", self.filetag)
        if os.path.isdir(d):
            for fn in os.listdir(d):
                if fn.endswith(".json"):
                    os.unlink(os.path.join(d, fn))

    # ------------------------------------------------------------ bookkeeping
    def ob(self, name: str) -> Dict[str, Any]:
        return self.obligations.setdefault(
            name, {"paths": 0, "queries": 0, "status": "pending", "reached": 0}
        )

    def add_engine(self, name: str, eng: Any, reached: Optional[int] = None) -> None:
        """Fold a finished symx Engine into obligation `name`."""
        o = self.ob(name)
        o["paths"] += eng.paths
        o["queries"] += eng.queries
        self.paths += eng.paths
        self.queries += eng.queries
        self.solver_time += eng.solver_time
        if reached is not None:
            o["reached"] += reached
        if eng.inconclusive or not eng.exhausted:
            o["status"] = "inconclusive"
            why = "; ".join(sorted(set(eng.inconclusive))[:3]) or "not exhausted"
            self.inconclusive.append(f"{name}: {why}")
        elif o["status"] == "pending":
            o["status"] = "discharged"

    def add_counts(self, name: str, paths: int, queries: int, solver_time: float = 0.0,
                   status: str = "discharged", reached: Optional[int] = None) -> None:
        o = self.ob(name)
        o["paths"] += paths
        o["queries"] += queries
        self.paths += paths
        self.queries += queries
        self.solver_time += solver_time
        if reached is not None:
            o["reached"] += reached
        if status == "inconclusive":
            o["status"] = "inconclusive"
        elif o["status"] == "pending":
            o["status"] = status

    def mark_inconclusive(self, name: str, why: str) -> None:
        self.ob(name)["status"] = "inconclusive"
        self.inconclusive.append(f"{name}: {why}")

    def sample(self, x: Any, cap: int = 12) -> None:
        if len(self.samples) < cap:
            self.samples.append(_jsonable(x))

    def harness_error(self, msg: str) -> None:
        self.harness_errors.append(msg)

    # -------------------------------------------------------- counterexamples
    def counterexample(self, obligation: str, case: Dict[str, Any], summary: str) -> str:
        """A solver-produced counterexample.  Replays it on the real code with
        no stub and no proxy; returns 'violation' | 'known:<F>' | 'unreachable'
        | 'harness-error' | 'dup'."""
        case = _jsonable(dict(case, property=self.pid, obligation=obligation))
        key = hashlib.sha1(json.dumps(case, sort_keys=True).encode()).hexdigest()[:12]
        if key in self._seen_cases:
            return "dup"
        self._seen_cases.add(key)
        try:
            out = self.module.replay(case)
        except Exception as ex:
            self.harness_error(f"replay crashed for {obligation}: {ex!r}\n{traceback.format_exc()}")
            return "harness-error"
        self.replays += 1
        st = out.get("status")
        if st == "unreachable":
            self.unreachable += 1
            return "unreachable"
        if st != "reproduces":
            self.harness_error(
                f"counterexample of {obligation} does not reproduce on the real code "
                f"(model or stub wrong): {summary}; case={json.dumps(case)[:600]} replay={_jsonable(out)}"
            )
            return "harness-error"
        fid = None
        try:
            fid = self.module.classify(case, out)
        except Exception as ex:
            self.harness_error(f"classify crashed: {ex!r}")
        if fid is not None:
            ent = [k for k in self.known if k["id"] == fid and k["status"] == "known"]
            if ent:
                self.known_hits.setdefault(fid, []).append(case)
                if self.ob(obligation)["status"] != "failed":
                    self.ob(obligation)["status"] = "known-finding"
                return f"known:{fid}"
        d = os.path.join(OUT, "replays", self.filetag)
        os.makedirs(d, exist_ok=True)
        path = os.path.join(d, f"{key}.json")
        with open(path, "w") as f:
            json.dump({"case": case, "summary": summary, "replay": _jsonable(out),
                       "interpreter": ".".join(map(str, sys.version_info[:2]))}, f, indent=1)
        self.ob(obligation)["status"] = "failed"
        self.violations.append({"obligation": obligation, "summary": summary, "replay": path, "case": case})
        return "violation"

    # ---------------------------------------------------------------- finish
    def merge_leg(self, leg: str, rc: int, stdout: str, stderr: str) -> None:
        """Fold the result of the same check run under another interpreter into this report."""
        p = os.path.join(OUT, "evidence", f"{self.pid}.leg{leg}.json")
        tag = f"[CPython 3.{leg[1:]} leg] "
        if rc == 2 or not os.path.exists(p):
            self.harness_error(f"{tag}exit {rc}: {stderr[-800:]}")
            return
        with open(p) as f:
            ev = json.load(f)
        os.unlink(p)
        cov = ev["coverage"]
        for name, o in cov.get("obligation_detail", {}).items():
            self.obligations[tag + name] = o
        self.paths += cov.get("states", 0)
        self.queries += cov.get("transitions", 0)
        self.replays += cov.get("traces_validated_against_impl", 0)
        self.solver_time += cov.get("solver_time_s", 0.0)
        self.inconclusive += [tag + x for x in cov.get("inconclusive", [])]
        self.extra[f"leg{leg}"] = {k: cov.get(k) for k in ("interpreter", "bounds", "code_objects", "observation_points",
                                                            "real_suspensions_validated", "real_probes_validated", "f2_counterexamples",
                                                            "known_findings_hit", "unreachable_counterexamples", "contexts_checked")
                                   if cov.get(k) is not None}
        for line in stdout.splitlines():
            if line.startswith("VIOLATION "):
                path = line.split("replay=", 1)[1].strip()
                self.violations.append({"obligation": tag.strip(), "summary": "see replay file", "replay": path, "case": {}})
            elif line.startswith("KNOWN-FINDING"):
                print(line.replace("KNOWN-FINDING:", "KNOWN-FINDING:", 1) + f" {tag.strip()}")

    def finish(self) -> int:
        wall = time.monotonic() - self.t0
        # a known finding is only announced when this run re-confirmed it
        for k in self.known:
            if k["status"] != "known":
                continue
            hits = self.known_hits.get(k["id"], [])
            confirmed = bool(hits)
            if not confirmed and hasattr(self.module, "confirm_finding"):
                try:
                    confirmed = bool(self.module.confirm_finding(k["id"]))
                    self.replays += 1
                except Exception as ex:
                    self.harness_error(f"confirm_finding({k['id']}) crashed: {ex!r}")
            if confirmed:
                print(f"KNOWN-FINDING: property={self.pid} {k['id']}: {k['what_fails']}"
                      f" [{len(hits)} counterexample(s) this run]")
        for inc in self.inconclusive[:20]:
            print(f"INCONCLUSIVE property={self.pid} {inc}")
        for v in self.violations:
            print(f"VIOLATION property={self.pid} replay={v['replay']}")
            print(f"  obligation={v['obligation']}: {v['summary']}")
        for h in self.harness_errors:
            print(f"HARNESS-ERROR property={self.pid}: {h}", file=sys.stderr)
        n_ob = len(self.obligations)
        n_dis = sum(1 for o in self.obligations.values() if o["status"] == "discharged")
        vac = [n for n, o in self.obligations.items()
               if o["status"] == "discharged" and o.get("reached", 1) == 0 and o["paths"] > 0]
        for n in vac:
            self.harness_errors.append(f"vacuous obligation {n}: no path reached the assertion")
            print(f"HARNESS-ERROR property={self.pid}: vacuous obligation {n}", file=sys.stderr)
        ev = {
            "property_id": self.pid,
            "tier": self.tier,
            "seed": self.seed,
            "level": "model_checking",
            "coverage": {
                "states": max(self.paths, 0),
                "transitions": max(self.queries, 0),
                "traces_validated_against_impl": self.replays,
                "samples": self.samples or ["(no sample recorded)"],
                "explanation": "states = symbolic paths explored to completion; transitions = solver "
                "queries discharged; traces_validated = counterexamples / known findings replayed on the real code",
                "obligations": n_ob,
                "discharged": n_dis,
                "obligation_detail": self.obligations,
                "inconclusive": self.inconclusive,
                "exhaustive": n_ob > 0 and n_dis == n_ob,
                "engine": self.engine_name,
                "functions_encoded": self.functions,
                "bounds": self.bounds,
                "outside_bounds": self.outside,
                "stubs": self.stubs,
                "solver_time_s": round(self.solver_time, 3),
                "known_findings_hit": {k: len(v) for k, v in self.known_hits.items()},
                "unreachable_counterexamples": self.unreachable,
                "interpreter": sys.version.split()[0],
                **self.extra,
            },
            "assumptions": self.assumptions + [f"stub: {s}" for s in self.stubs],
            "wall_s": round(wall, 2),
            "violations": len(self.violations),
        }
        os.makedirs(os.path.join(OUT, "evidence"), exist_ok=True)
        with open(os.path.join(OUT, "evidence", f"{self.filetag}.json"), "w") as f:
            json.dump(_jsonable(ev), f, indent=1)
        print(f"[{self.pid}] tier={self.tier} obligations={n_ob} discharged={n_dis} paths={self.paths} "
              f"queries={self.queries} solver={self.solver_time:.1f}s replays={self.replays} "
              f"violations={len(self.violations)} wall={wall:.1f}s")
        if self.violations:
            return EXIT_VIOLATION
        if self.harness_errors or self.paths == 0:
            return EXIT_HARNESS
        return EXIT_OK
