"""Program grammar for the bytecode leg (C01/C02/C08/C20).

Every generated function has the signature `prog(E)`; E supplies managers
(E.m(i) plain, E.ms(i) exception-swallowing), decisions (E.c(k)), bounded loop
conditions (E.n(k)), an iterable (E.it()), a value (E.v()), an awaitable trap
(E.t()) and an exception class (E.Err).  Each with-item uses a distinct
literal manager id so that BEFORE_WITH offsets can be joined to items.
"""
from __future__ import annotations

import itertools
from typing import Any, Dict, Iterator, List, Optional, Tuple

KINDS = ["gen", "coro", "agen"]
CONTEXTS = ["none", "try_body", "tryfinally_body", "finally_body", "except_body", "for", "while", "if", "match",
            "in_with", "in_async_with", "else_of_try", "for_else",
            # a loop between an outer with and the with under study (break / continue leave the inner block only)
            "in_with_for", "in_with_while", "in_with_while_with", "in_with_for_with"]
TAILS = ["plain", "try_except_last", "try_finally_last", "if_return_const", "if_return_value", "if_break",
         "if_continue", "raise", "nested_with", "swallow", "empty", "if_else_return", "return_in_try_finally",
         "nested_async_with", "try_except_else_last", "if_return_none", "oneline_pass", "try_finally_del", "while_last",
         # the body's last instruction carries inline cache entries (the exception-table range ends on a CACHE unit)
         "store_attr_last", "store_subscr_last", "if_continue_last",
         # control leaves the with body from INSIDE a nested handler range (the instruction that reaches the inlined
         # exit call is covered by the try's table entry first, by the with's own entry only further out the chain)
         "try_continue_last", "try_break_last", "try_return_last"]
CONTS = ["nothing", "stmt", "second_with"]


def ind(lines: List[str], n: int = 1) -> List[str]:
    return [("    " * n) + l for l in lines]


class Gen:
    def __init__(self, kind: str, probes: bool = False):
        self.kind = kind
        self.next_id = 1
        self.yn = 0
        self.probes = probes

    def S(self) -> List[str]:
        """A suspension point appropriate to the function kind (preceded by a probe call
        `E.p()` in the running-frame corpus; a plain function has only the probe)."""
        if self.kind == "func":
            return ["E.p()"]
        return (["E.p()"] if self.probes else []) + self._susp()

    def _susp(self) -> List[str]:
        self.yn += 1
        if self.kind == "gen":
            return [f"yield {self.yn}"]
        if self.kind == "coro":
            return ["await E.t()"]
        return [f"yield {self.yn}"] if self.yn % 2 else ["await E.t()"]

    def mid(self) -> int:
        i = self.next_id
        self.next_id += 1
        return i

    def WITH(self, is_async: bool, nitems: int, body: List[str], swallow: bool = False, target: Optional[str] = "x") -> List[str]:
        items = []
        for j in range(nitems):
            i = self.mid()
            ctor = f"E.ms({i})" if swallow else f"E.m({i})"
            if target is not None and j == 0:
                items.append(f"{ctor} as {target}{i}")
            else:
                items.append(ctor)
        head = ("async with " if is_async else "with ") + ", ".join(items) + ":"
        return [head] + ind(body)


def build(kind: str, ctx: str, is_async: bool, nitems: int, tail: str, cont: str, probes: bool = False) -> Optional[str]:
    """Returns the source of `prog`, or None if the combination is not valid Python
    (break outside loop, `return value` in an async generator, async with in a generator)."""
    if is_async and kind in ("gen", "func"):
        return None
    if ctx == "in_async_with" and kind in ("gen", "func"):
        return None
    if tail == "nested_async_with" and kind in ("gen", "func"):
        return None
    in_loop = ctx in ("for", "while", "for_else", "in_with_for", "in_with_while", "in_with_while_with", "in_with_for_with")
    if tail in ("if_break", "if_continue", "if_continue_last", "try_continue_last", "try_break_last") and not in_loop:
        return None
    if kind == "agen" and tail in ("if_return_const", "if_return_value", "if_else_return", "return_in_try_finally"):
        # async generators cannot return a value; the bare-return shape is covered by if_return_none
        return None
    g = Gen(kind, probes)
    S = g.S
    swallow = tail == "swallow"
    if tail == "plain":
        body = S()
    elif tail == "try_except_last":
        body = S() + ["try:"] + ind(S() + ["if E.c(0):", "    raise E.Err()"]) + ["except E.Err:"] + ind(S())
    elif tail == "try_except_else_last":
        body = ["try:"] + ind(S() + ["if E.c(0):", "    raise E.Err()"]) + ["except E.Err:"] + ind(["pass"]) + ["else:"] + ind(S())
    elif tail == "try_finally_last":
        body = ["try:"] + ind(S()) + ["finally:"] + ind(S())
    elif tail == "if_return_const":
        body = S() + ["if E.c(0):", "    return 7"]
    elif tail == "if_return_none":
        body = S() + ["if E.c(0):", "    return"]
    elif tail == "if_return_value":
        body = S() + ["if E.c(0):", "    return E.v()"]
    elif tail == "if_break":
        body = S() + ["if E.c(0):", "    break"]
    elif tail == "if_continue":
        body = S() + ["if E.c(0):", "    continue"] + S()
    elif tail == "if_continue_last":
        body = S() + ["if E.c(0):", "    continue"]
    elif tail in ("try_continue_last", "try_break_last", "try_return_last"):
        leave = {"try_continue_last": "continue", "try_break_last": "break", "try_return_last": "return"}[tail]
        body = S() + ["try:"] + ind(["if E.c(0):", "    " + leave]) + ["except E.Err:"] + ind(["E.v()"])
    elif tail in ("raise", "swallow"):
        body = S() + ["if E.c(0):", "    raise E.Err()"]
    elif tail == "nested_with":
        body = S() + g.WITH(False, 1, S() + ["if E.c(0):", "    return"])
    elif tail == "nested_async_with":
        body = S() + g.WITH(True, 1, S())
    elif tail == "empty":
        body = ["pass"]
    elif tail == "oneline_pass":
        body = ["pass"]  # rendered on the same line as the with header (no NOP: the block protects one instruction)
    elif tail == "try_finally_del":
        body = ["y = 0", "try:"] + ind(S()) + ["finally:"] + ind(["del y"])
    elif tail == "while_last":
        body = S() + ["while E.n(3):"] + ind(S())
    elif tail == "store_attr_last":
        body = S() + ["E.a.b = 1"]
    elif tail == "store_subscr_last":
        body = S() + ["E.d[0] = 1"]
    elif tail == "if_else_return":
        body = ["if E.c(0):"] + ind(S() + ["return 1"]) + ["else:"] + ind(S())
    elif tail == "return_in_try_finally":
        body = ["try:"] + ind(S() + ["if E.c(0):", "    return 3"]) + ["finally:"] + ind(S())
    else:
        raise AssertionError(tail)
    W = g.WITH(is_async, nitems, body, swallow=swallow)
    if tail == "oneline_pass":
        W = [W[0] + " pass"]
    if cont == "stmt":
        W = W + S()
    elif cont == "second_with":
        W = W + g.WITH(is_async, 1, S(), target=None)
    if ctx == "none":
        lines = W
    elif ctx == "try_body":
        lines = ["try:"] + ind(W) + ["except E.Err:"] + ind(S())
    elif ctx == "tryfinally_body":
        lines = ["try:"] + ind(W) + ["finally:"] + ind(S())
    elif ctx == "finally_body":
        lines = ["try:"] + ind(S()) + ["finally:"] + ind(W)
    elif ctx == "except_body":
        lines = ["try:"] + ind(S() + ["if E.c(1):", "    raise E.Err()"]) + ["except E.Err:"] + ind(W)
    elif ctx == "else_of_try":
        lines = ["try:"] + ind(S()) + ["except E.Err:"] + ind(["pass"]) + ["else:"] + ind(W)
    elif ctx == "for":
        lines = ["for i in E.it():"] + ind(W)
    elif ctx == "for_else":
        lines = ["for i in E.it():"] + ind(W) + ["else:"] + ind(S())
    elif ctx == "while":
        lines = ["while E.n(2):"] + ind(W)
    elif ctx == "if":
        lines = ["if E.c(1):"] + ind(W) + ["else:"] + ind(S())
    elif ctx == "match":
        lines = ["match E.v():"] + ind(["case 1:"] + ind(W) + ["case _:"] + ind(S()))
    elif ctx == "in_with":
        lines = g.WITH(False, 1, W + S(), target="o")
    elif ctx == "in_async_with":
        lines = g.WITH(True, 1, W + S(), target="o")
    elif ctx == "in_with_for":
        lines = g.WITH(False, 1, ["for i in E.it():"] + ind(W) + S(), target="o")
    elif ctx == "in_with_while":
        lines = g.WITH(False, 1, ["while E.n(2):"] + ind(W) + S(), target="o")
    elif ctx == "in_with_while_with":
        # break / continue inside W leave W's block AND the middle one, but not the outer one
        lines = g.WITH(False, 1, ["while E.n(2):"] + ind(g.WITH(False, 1, W, target="mid")) + S(), target="o")
    elif ctx == "in_with_for_with":
        lines = g.WITH(False, 1, ["for i in E.it():"] + ind(g.WITH(False, 1, W, target="mid")) + S(), target="o")
    else:
        raise AssertionError(ctx)
    lines = lines + S()
    head = "def prog(E):" if kind in ("gen", "func") else "async def prog(E):"
    src = "\n".join([head] + ind(lines)) + "\n"
    try:
        compile(src, "<prog>", "exec")
    except SyntaxError:
        return None
    return src


def corpus(tier: str, seed: int = 0) -> Iterator[Tuple[Dict[str, Any], str]]:
    """(descriptor, source).  quick: every (context, tail) pair with rotating other
    dimensions; thorough: the full product."""
    if tier == "thorough":
        for kind, ctx, is_async, nitems, tail, cont in itertools.product(KINDS, CONTEXTS, (False, True), (1, 2), TAILS, CONTS):
            src = build(kind, ctx, is_async, nitems, tail, cont)
            if src:
                yield ({"kind": kind, "ctx": ctx, "async": is_async, "nitems": nitems, "tail": tail, "cont": cont}, src)
        return
    r = seed
    for ci, ctx in enumerate(CONTEXTS):
        for ti, tail in enumerate(TAILS):
            variants = [("gen", False), ("coro", True), ("agen", True), ("coro", False)]
            for vi, (kind, is_async) in enumerate(variants):
                nitems = 1 + ((ci + ti + vi + r) % 2)
                cont = CONTS[(ci + 2 * ti + vi + r) % 3]
                src = build(kind, ctx, is_async, nitems, tail, cont)
                if src:
                    yield ({"kind": kind, "ctx": ctx, "async": is_async, "nitems": nitems, "tail": tail, "cont": cont}, src)


def corpus_running(tier: str, seed: int = 0) -> Iterator[Tuple[Dict[str, Any], str]]:
    """Running-frame corpus (C02): the same grammar with probe calls, plus plain functions."""
    kinds = ["func", "gen", "coro", "agen"]
    if tier == "thorough":
        for kind, ctx, is_async, nitems, tail, cont in itertools.product(kinds, CONTEXTS, (False, True), (1, 2), TAILS, CONTS):
            src = build(kind, ctx, is_async, nitems, tail, cont, probes=True)
            if src:
                yield ({"kind": kind, "ctx": ctx, "async": is_async, "nitems": nitems, "tail": tail, "cont": cont, "probes": True}, src)
        return
    r = seed
    for ci, ctx in enumerate(CONTEXTS):
        for ti, tail in enumerate(TAILS):
            variants = [("func", False), ("gen", False), ("coro", True), ("agen", True), ("coro", False)]
            for vi, (kind, is_async) in enumerate(variants):
                nitems = 1 + ((ci + ti + vi + r) % 2)
                cont = CONTS[(ci + 2 * ti + vi + r) % 3]
                src = build(kind, ctx, is_async, nitems, tail, cont, probes=True)
                if src:
                    yield ({"kind": kind, "ctx": ctx, "async": is_async, "nitems": nitems, "tail": tail, "cont": cont, "probes": True}, src)
