"""Fake frame and the inspect_frame model for the bytecode leg."""
from __future__ import annotations

import functools
import io
import types
from typing import Any, Dict, List, Optional, Tuple

from vlib import repoenv


class Filler:
    """Occupies a value-stack slot that holds nothing of interest.  Has no __self__."""

    __slots__ = ("n",)

    def __init__(self, n: int):
        self.n = n

    def __repr__(self) -> str:
        return f"<slot{self.n}>"


class DummyManager:
    """Per-with-item dummy manager whose bound __exit__/__aexit__ sits in the tagged slot."""

    def __init__(self, i: int):
        self.i = i

    def __repr__(self) -> str:
        return f"<D{self.i}>"

    def __enter__(self) -> "DummyManager":
        return self

    def __exit__(self, *exc: Any) -> None:
        return None

    async def __aenter__(self) -> "DummyManager":
        return self

    async def __aexit__(self, *exc: Any) -> None:
        return None


class DerivedDummyManager(DummyManager):
    """Inherits the whole protocol (cf. subclasses of contextlib.ExitStack, mixins providing __exit__)."""


class CExitDummyManager(io.StringIO):
    """A manager whose __exit__ is implemented in C (_io._IOBase.__exit__, like files and locks): the value stack holds
    a builtin bound method, and what runs below the with statement's frame while the block is left is the Python close()."""

    def __init__(self, i: int):
        super().__init__()
        self.i = i

    def __repr__(self) -> str:
        return f"<D{self.i}>"

    def close(self) -> None:
        super().close()

    __aenter__ = DummyManager.__aenter__
    __aexit__ = DummyManager.__aexit__


def Dummy(i: int) -> DummyManager:
    if i % 4 == 2:
        return CExitDummyManager(i)  # type: ignore[return-value]
    return DerivedDummyManager(i) if i % 2 else DummyManager(i)


def exit_frame_for(d: Any, is_async: bool) -> "FakeFrame":
    """The frame that runs directly below the with statement's frame while d's (a)exit is in progress."""
    bound = getattr(d, "__aexit__" if is_async else "__exit__")
    if not hasattr(bound, "__func__"):
        code = type(d).close.__code__           # C-level __exit__ calling back into Python
    else:
        code = bound.__func__.__code__
    return FakeFrame(code, 0, {code.co_varnames[0]: d, "exc": ()})


_unused = DummyManager  # (the class name contains an "a" on purpose: see C20's is_async derivation)


class FakeFrame:
    """The attributes the analysed functions read; f_code is a REAL code object."""

    def __init__(self, code: types.CodeType, lasti: Any, f_locals: Optional[Dict[str, Any]] = None):
        self.f_code = code
        self.f_lasti = lasti
        self.f_locals = f_locals or {}
        self.f_back = None
        self.f_globals: Dict[str, Any] = {}
        self.f_builtins: Dict[str, Any] = {}
        self.f_lineno = code.co_firstlineno

    def __repr__(self) -> str:
        return f"<fake frame of {self.f_code.co_name}>"


class InspectModel:
    """Replaces the ctypes half of inspect_frame.  blocks = the REAL handler-chain walk
    (AST slice of the current source) at f_lasti; stack = what the abstract
    interpreter predicts, with bound exit methods of dummy managers in tagged slots."""

    def __init__(self) -> None:
        self.chain_walk, self.chain_lines = repoenv.slice_chain_walk()
        self.depth_trim, self.trim_lines = repoenv.slice_depth_trim()
        self.stack_for: Dict[int, List[Any]] = {}   # id(fake frame) -> stack to report
        self.running: Dict[int, bool] = {}

    def set(self, frame: FakeFrame, stack: List[Any], running: bool = False) -> None:
        self.stack_for[id(frame)] = stack
        self.running[id(frame)] = running

    def __call__(self, frame: Any) -> Any:
        details = self.chain_walk(frame.f_code, frame.f_lasti)
        stack = list(self.stack_for[id(frame)])
        if self.running.get(id(frame)):
            # a running frame has no saved stack top: trimmed at the depth the real for/else computes
            depth = self.depth_trim(frame.f_code, frame.f_lasti)
            stack = stack[:depth]
        details.stack = stack
        return details


def model_stack(tags: Tuple[Any, ...], dummies: Dict[int, Dummy], wmap: Dict[int, Tuple[int, int, Optional[str], bool]],
                with_async: Dict[int, bool]) -> List[Any]:
    out: List[Any] = []
    for n, t in enumerate(tags):
        if isinstance(t, tuple) and t[0] == "exit":
            d = dummies[wmap[t[1]][0]]
            out.append(d.__aexit__ if with_async[t[1]] else d.__exit__)
        else:
            out.append(Filler(n))
    return out


class FakeFrameReachedCtypes(BaseException):
    """A fake frame must never reach the real ctypes inspect_frame (it reads raw memory)."""


def install_guard() -> None:
    """Wrap the real inspect_frame so that fake frames are refused before any raw read."""
    from stackscope import _lowlevel

    cur = _lowlevel.inspect_frame
    if getattr(cur, "_verif_guard", False) or isinstance(cur, InspectModel):
        return
    # the module-level name starts out as a lazy dispatcher that rebinds itself on first use:
    # resolve it on a real frame first, then wrap whatever it resolved to
    import sys as _sys

    cur(_sys._getframe(0))
    cur = _lowlevel.inspect_frame

    def guarded(frame: Any) -> Any:
        if isinstance(frame, FakeFrame):
            raise FakeFrameReachedCtypes(repr(frame))
        return cur(frame)

    guarded._verif_guard = True  # type: ignore[attr-defined]
    _lowlevel.inspect_frame = guarded
