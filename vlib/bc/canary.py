"""Divergence canary for the bytecode leg.

A change to the exception-table decoder or the handler-chain walk can make the
real inspect_frame loop forever while allocating (DESIGN.md section 2).  Before
any worker touches the real analysis, it is run once on a trivial real frame in
a child process under a wall-clock and address-space limit.  A hang or a crash
there is a reproduced violation of C01/C02/C08/C20 (the replay is this script).
"""
from __future__ import annotations

import os
import subprocess
import sys

SCRIPT = r'''
import resource, sys, warnings
resource.setrlimit(resource.RLIMIT_AS, (2 * 1024**3, 2 * 1024**3))
from stackscope import _lowlevel
class M:
    def __enter__(self): return self
    def __exit__(self, *a): return None
m = M()
def g():
    try:
        with m as x:
            yield 1
    finally:
        pass
gi = g(); next(gi)
with warnings.catch_warnings(record=True) as w:
    warnings.simplefilter("always")
    c = _lowlevel.contexts_active_in_frame(gi.gi_frame, gi, None)
bad = [str(x.message) for x in w if issubclass(x.category, _lowlevel.InspectionWarning)]
ok = len(c) == 1 and c[0].obj is m and not c[0].is_exiting and not bad
print("CANARY", "ok" if ok else ("deviates: %r %r" % (c, bad)))
'''


def run(timeout: float = 30.0) -> str:
    """Returns 'ok', 'deviates: ...', or 'diverges: ...'."""
    try:
        r = subprocess.run([sys.executable, "-c", SCRIPT], capture_output=True, text=True, timeout=timeout,
                           env=dict(os.environ))
    except subprocess.TimeoutExpired:
        return f"diverges: no answer on a trivial suspended generator within {timeout:.0f}s"
    for line in r.stdout.splitlines():
        if line.startswith("CANARY "):
            return line[len("CANARY "):]
    return f"diverges: child exited {r.returncode} without an answer: {r.stderr.strip()[-300:]}"
