"""Real execution of generated programs with event-logging managers.

Role in the framework: (a) replay of solver counterexamples, (b) validation of
the abstract interpreter / inspect_frame model against the real interpreter.
It never produces a verdict by itself.
"""
from __future__ import annotations

import ast
import contextlib
import dis
import io
import itertools
import functools
import types
import warnings
from typing import Any, Dict, List, Optional, Tuple


class Err(Exception):
    pass


def is_exit_method(r: Any) -> bool:
    """A bound __exit__ / __aexit__ as a with statement leaves it on the value stack: a Python method, or the builtin
    bound method of a manager implemented in C (files, locks, io objects)."""
    if isinstance(r, types.MethodType):
        return r.__func__.__name__ in ("__exit__", "__aexit__")
    return isinstance(r, types.BuiltinMethodType) and getattr(r, "__name__", None) in ("__exit__", "__aexit__") and not isinstance(
        getattr(r, "__self__", None), (type(None), types.ModuleType))


@types.coroutine
def _trap() -> Any:
    yield "trap"


class LogManager:
    """Logging manager usable in `with` and `async with`; the async methods suspend."""

    def __init__(self, env: "Env", i: int, swallow: bool, shape: str = "self"):
        self.env, self.i, self.swallow, self.shape = env, i, swallow, shape

    def _value(self) -> Any:
        s = self
        return {"self": s, "pair": (s, s), "triple": (s, s, s), "nested": (s, (s, s))}[self.shape]

    def __repr__(self) -> str:
        return f"<LM {self.i}>"

    def __enter__(self) -> "LogManager":
        self.env.probe("enter")
        self.env.log.append(("entered", self.i, self))
        return self._value()

    def __exit__(self, *exc: Any) -> bool:
        self.env.log.append(("exit-begin", self.i, self))
        self.env.probe("exit")
        self.env.log.append(("exit-end", self.i, self))
        return self.swallow and exc[0] is not None and issubclass(exc[0], Err)

    async def __aenter__(self) -> "LogManager":
        self.env.probe("aenter")
        await _trap()
        self.env.probe("aenter")
        self.env.log.append(("entered", self.i, self))
        return self._value()

    async def __aexit__(self, *exc: Any) -> bool:
        self.env.log.append(("exit-begin", self.i, self))
        self.env.probe("aexit")
        try:
            await _trap()
            self.env.probe("aexit")
        finally:
            # __aexit__ returns (or is left by an exception thrown in): either way it is over
            self.env.log.append(("exit-end", self.i, self))
        return self.swallow and exc[0] is not None and issubclass(exc[0], Err)


class DerivedLogManager(LogManager):
    """Inherits __enter__/__exit__/__aenter__/__aexit__ from its base class."""


class CExitLogManager(io.StringIO):
    """__exit__ is implemented in C (_io._IOBase.__exit__, as for files and locks) and calls back into the Python
    close(); the async protocol is the plain one."""

    def __init__(self, env: "Env", i: int, swallow: bool, shape: str = "self"):
        super().__init__()
        self.env, self.i, self.swallow, self.shape = env, i, swallow, shape
        self._in_with = False

    _value = LogManager._value
    __repr__ = LogManager.__repr__
    __aenter__ = LogManager.__aenter__
    __aexit__ = LogManager.__aexit__

    def __enter__(self) -> Any:
        self.env.probe("enter")
        self.env.log.append(("entered", self.i, self))
        self._in_with = True
        return self._value()

    def close(self) -> None:
        if self._in_with:            # (close() is also called by the finaliser: only the with statement's call is logged)
            self._in_with = False
            self.env.log.append(("exit-begin", self.i, self))
            self.env.probe("exit")
            self.env.log.append(("exit-end", self.i, self))
        super().close()


LM = LogManager


class Env:
    Err = Err

    def __init__(self, script: Tuple[bool, ...]):
        self.script = script
        self.log: List[Tuple[str, int, Any]] = []
        self.ncalls: Dict[int, int] = {}
        self.a: Any = types.SimpleNamespace(b=None)   # assignable attribute targets: `as E.a`, `as E.a.b`
        self.prog_code: Any = None       # set for the running-frame corpus
        self.on_probe: Any = None

    def p(self) -> None:
        self.probe("body")

    def probe(self, where: str) -> None:
        """Called from inside the program's body, or from inside a manager method, while the
        program's frame is RUNNING on this thread."""
        if self.on_probe is None or self.prog_code is None:
            return
        import sys as _sys

        fr: Any = _sys._getframe(1)
        inner = None
        while fr is not None and fr.f_code is not self.prog_code:
            inner = fr
            fr = fr.f_back
        if fr is None:
            return
        active, exiting = self.truth()
        self.on_probe(fr, inner, active, exiting, where)

    def m(self, i: int, shape: str = "self") -> LM:
        cls = CExitLogManager if i % 4 == 2 else DerivedLogManager if i % 2 else LogManager
        return cls(self, i, False, shape)

    class _AnyBox:
        def __getitem__(self, k: Any) -> Any:
            return Env._AnyBox()

        def __setitem__(self, k: Any, v: Any) -> None:
            return None

    @property
    def d(self) -> Any:
        return Env._AnyBox()

    def f(self, *a: Any, **k: Any) -> Any:
        return Env._AnyBox()      # accepts attribute and item assignment

    g = f

    def ms(self, i: int) -> LM:
        return LM(self, i, True)

    def c(self, k: int) -> bool:
        n = self.ncalls.get(k, 0)
        self.ncalls[k] = n + 1
        # the scripted outcome applies to the first evaluation; later ones alternate
        return bool(self.script[k]) if n == 0 else (n % 2 == 1) != bool(self.script[k])

    def n(self, k: int) -> bool:
        n = self.ncalls.get(100 + k, 0)
        self.ncalls[100 + k] = n + 1
        return n < 2

    def it(self) -> List[int]:
        return [1, 2]

    def v(self) -> int:
        return 1

    def t(self) -> Any:
        return _trap()

    def truth(self) -> Tuple[List[Any], Optional[Any]]:
        """(managers entered and not exited, in order; the one whose exit is in progress)."""
        active: List[Any] = []
        exiting: Optional[Any] = None
        for ev, i, mgr in self.log:
            if ev == "entered":
                active.append(mgr)
            elif ev == "exit-begin":
                exiting = mgr
            elif ev == "exit-end":
                active = [a for a in active if a is not mgr]
                exiting = None
        return active, exiting


def compile_prog(src: str) -> Any:
    # g0..g199: filler globals for programs that need high name indices (EXTENDED_ARG at the start of a line);
    # GE: the environment as a GLOBAL (bound by drive()), so that a with line can begin with LOAD_GLOBAL
    ns: Dict[str, Any] = {"__name__": "verif_prog", "GE": None}
    ns.update({f"g{i}": 0 for i in range(200)})
    exec(compile(src, "<prog>", "exec"), ns)
    return ns["prog"]


def with_item_map(src: str, code: types.CodeType) -> Dict[int, Tuple[int, int, Optional[str], bool]]:
    """BEFORE_WITH offset -> (manager id, with-statement line, source of the `as` target or None, is_async),
    joined through instruction positions: the instruction before BEFORE_*WITH carries
    the span of the item's context expression."""
    tree = ast.parse(src)
    items: Dict[Tuple[int, int, int, int], Tuple[int, int, Optional[str], bool]] = {}
    for node in ast.walk(tree):
        if isinstance(node, (ast.With, ast.AsyncWith)):
            for it in node.items:
                ce = it.context_expr
                mid = -1
                if isinstance(ce, ast.Call) and ce.args and isinstance(ce.args[0], ast.Constant):
                    mid = ce.args[0].value
                elif isinstance(ce, ast.Name) and ce.id == "m0":
                    mid = 9  # the manager pre-bound by `m0 = E.m(9)`
                tgt = ast.unparse(it.optional_vars) if it.optional_vars is not None else None
                items[(ce.lineno, ce.col_offset, ce.end_lineno, ce.end_col_offset)] = (
                    mid, node.lineno, tgt, isinstance(node, ast.AsyncWith))
    out: Dict[int, Tuple[int, int, Optional[str], bool]] = {}
    insns = list(dis.get_instructions(code))
    for idx, ins in enumerate(insns):
        if ins.opname in ("BEFORE_WITH", "BEFORE_ASYNC_WITH"):
            prev = insns[idx - 1]
            p = prev.positions
            key = (p.lineno, p.col_offset, p.end_lineno, p.end_col_offset)
            if key not in items:
                raise KeyError(f"cannot join BEFORE_WITH at {ins.offset} to a with item via positions {key}")
            out[ins.offset] = items[key]
    return out


def n_decisions(src: str) -> int:
    ks = [int(x) for x in __import__("re").findall(r"E\.c\((\d+)\)", src)]
    return (max(ks) + 1) if ks else 0


class Observation:
    __slots__ = ("lasti", "active", "exiting", "frame", "gen", "next_inner", "step", "env")

    def __init__(self, **kw: Any):
        for k, v in kw.items():
            setattr(self, k, v)


def drive(prog: Any, kind: str, script: Tuple[bool, ...], throw_at: Optional[int], on_suspend: Any,
          on_probe: Any = None, on_created: Any = None) -> None:
    """Run prog(E) to completion; call on_suspend(Observation) at every suspension
    of prog's own frame (including while a manager's __aenter__/__aexit__ is what is suspended)."""
    env = Env(script)
    prog.__globals__["GE"] = env
    if on_probe is not None:
        env.prog_code = prog.__code__
        env.on_probe = on_probe
    if kind == "func":
        try:
            prog(env)
        except Err:
            pass
        return
    obj = prog(env)
    if on_created is not None:
        on_created(obj)          # the target exists but has not been started yet
    if kind == "gen":
        frame_of = lambda: obj.gi_frame  # noqa: E731
        stepper_new = None
    elif kind == "coro":
        frame_of = lambda: obj.cr_frame  # noqa: E731
        stepper_new = None
    else:
        frame_of = lambda: obj.ag_frame  # noqa: E731
    step = 0
    cur_aw: Any = None  # for async generators: the current asend/athrow awaitable
    pending_throw = False
    guard = 0
    while True:
        guard += 1
        if guard > 500:
            raise RuntimeError("program does not terminate")
        try:
            do_throw = throw_at is not None and step == throw_at + 1 and not pending_throw
            if kind == "gen":
                if do_throw:
                    pending_throw = True
                    obj.throw(Err())
                else:
                    obj.send(None)
            elif kind == "coro":
                if do_throw:
                    pending_throw = True
                    obj.throw(Err())
                else:
                    obj.send(None)
            else:
                if cur_aw is None:
                    if do_throw:
                        pending_throw = True
                        cur_aw = obj.athrow(Err())
                    else:
                        cur_aw = obj.asend(None)
                    cur_aw.send(None)
                else:
                    if do_throw:
                        pending_throw = True
                        cur_aw.throw(Err())
                    else:
                        cur_aw.send(None)
                # still suspended inside the same asend (an await)
        except StopIteration:
            if kind == "agen":
                # the async generator yielded a value: asend finished; generator suspended at yield
                cur_aw = None
            else:
                return
        except (StopAsyncIteration, Err):
            return
        fr = frame_of()
        if fr is None:
            return
        step += 1
        active, exiting = env.truth()
        inner = None
        aw = getattr(obj, {"gen": "gi_yieldfrom", "coro": "cr_await", "agen": "ag_await"}[kind], None)
        if aw is not None and hasattr(aw, "cr_frame"):
            inner = aw.cr_frame
        on_suspend(Observation(lasti=fr.f_lasti, active=active, exiting=exiting, frame=fr, gen=obj,
                               next_inner=inner, step=step, env=env))


def all_runs(src: str) -> List[Tuple[Tuple[bool, ...], Optional[int]]]:
    k = n_decisions(src)
    runs: List[Tuple[Tuple[bool, ...], Optional[int]]] = []
    for script in itertools.product((False, True), repeat=k):
        runs.append((script, None))
    # exceptions thrown in at each suspension index of the all-False and all-True scripts
    for script in {tuple([False] * k), tuple([True] * k)}:
        for j in range(12):
            runs.append((script, j))
    return runs


def observe_all(src: str, kind: str, want_real: bool = True, trickery: Optional[bool] = None) -> List[Dict[str, Any]]:
    """Every real suspension of every run: lasti, truth, real inspect_frame, real contexts.
    trickery=False observes the referents implementation instead."""
    from stackscope import _lowlevel

    if trickery is not None:
        _lowlevel.set_trickery_enabled(trickery)
        try:
            return observe_all(src, kind, want_real, None)
        finally:
            _lowlevel.set_trickery_enabled(None)

    prog = compile_prog(src)
    out: List[Dict[str, Any]] = []
    seen_steps = set()
    for script, throw_at in all_runs(src):
        nsusp = [0]

        def on_suspend(ob: Observation, script=script, throw_at=throw_at) -> None:
            nsusp[0] += 1
            rec: Dict[str, Any] = {"lasti": ob.lasti, "active": list(ob.active), "exiting": ob.exiting,
                                   "script": script, "throw_at": throw_at, "step": ob.step,
                                   "locals": dict(ob.frame.f_locals)}
            if want_real:
                with warnings.catch_warnings(record=True) as w, contextlib.redirect_stderr(io.StringIO()):
                    warnings.simplefilter("always")
                    try:
                        ctxs = _lowlevel.contexts_active_in_frame(ob.frame, ob.gen, ob.next_inner)
                        rec["real"] = [(c.obj, c.is_async, c.is_exiting, c.varname, c.start_line) for c in ctxs]
                    except Exception as ex:
                        rec["real_exc"] = repr(ex)
                rec["warnings"] = [str(x.message) for x in w if issubclass(x.category, _lowlevel.InspectionWarning)]
                try:
                    import gc as _gc

                    rec["referent_exits"] = [r for r in _gc.get_referents(ob.gen) if is_exit_method(r)]
                    det = _lowlevel.inspect_frame(ob.frame)
                    rec["stack"] = list(det.stack)
                    rec["blocks"] = [(b.handler, b.level) for b in det.blocks]
                except Exception as ex:
                    rec["stack_exc"] = repr(ex)
            out.append(rec)

        if throw_at is not None and throw_at >= 1:
            # skip throw indices beyond the number of suspensions this script has
            pass
        try:
            drive(prog, kind, script, throw_at, on_suspend)
        except Exception as ex:  # a program that misbehaves is a harness problem, surfaced by the caller
            out.append({"driver_error": repr(ex), "script": script, "throw_at": throw_at})
        if throw_at is not None and nsusp[0] <= throw_at:
            continue
    return out


def probe_all(src: str, kind: str) -> List[Dict[str, Any]]:
    """Running-frame observations: the real contexts_active_in_frame called from inside the body,
    and from inside every __enter__/__exit__/__aenter__/__aexit__, on the program's RUNNING frame."""
    from stackscope import _lowlevel

    prog = compile_prog(src)
    out: List[Dict[str, Any]] = []
    for script, throw_at in all_runs(src):
        if kind == "func" and throw_at is not None:
            continue

        def on_probe(fr: Any, inner: Any, active: List[Any], exiting: Any, where: str, script=script, throw_at=throw_at) -> None:
            rec: Dict[str, Any] = {"lasti": fr.f_lasti, "active": list(active), "exiting": exiting, "where": where,
                                   "script": script, "throw_at": throw_at}
            with warnings.catch_warnings(record=True) as w, contextlib.redirect_stderr(io.StringIO()):
                warnings.simplefilter("always")
                try:
                    ctxs = _lowlevel.contexts_active_in_frame(fr, None, inner)
                    rec["real"] = [(c.obj, c.is_async, c.is_exiting, c.varname, c.start_line) for c in ctxs]
                except Exception as ex:
                    rec["real_exc"] = repr(ex)
            rec["warnings"] = [str(x.message) for x in w if issubclass(x.category, _lowlevel.InspectionWarning)]
            out.append(rec)

        try:
            drive(prog, kind, script, throw_at, lambda ob: None, on_probe)
        except Exception as ex:
            out.append({"driver_error": repr(ex), "script": script, "throw_at": throw_at})
    return out
