"""Tagged abstract interpretation of a CPython 3.12 (or 3.11) code object.

State = tuple of tags for the value-stack slots (bottom first):
  None              anything that is not of interest
  ("exit", w)       bound __exit__/__aexit__ pushed by BEFORE_WITH / BEFORE_ASYNC_WITH at offset w
  ("enterres", w)   awaitable returned by __aenter__ of w, until its await finishes
  ("exitres", w)    result (or awaitable) of the exit call of w, until consumed
The exception table is used only the way the interpreter itself uses it: for
edges and stack depths.  WHICH block an exit call belongs to comes from the
tag the call consumes, never from table-entry matching (which is what the
implementation under test does), so the oracle is independent of it.
"""
from __future__ import annotations

import dis
import sys
import types
from typing import Any, Dict, FrozenSet, List, Optional, Set, Tuple

assert sys.version_info[:2] in ((3, 11), (3, 12)), "this module models CPython 3.11 / 3.12 bytecode"
PY311 = sys.version_info[:2] == (3, 11)

State = Tuple[Any, ...]
op = dis.opmap


class Unsupported(Exception):
    pass


def parse_table(code: types.CodeType) -> List[Tuple[int, int, int, int, bool]]:
    """Independent exception-table parser (from Objects/exception_handling_notes.txt),
    byte offsets, end exclusive."""
    out = []
    it = iter(code.co_exceptiontable)

    def varint() -> int:
        b = next(it)
        v = b & 63
        while b & 64:
            b = next(it)
            v = (v << 6) | (b & 63)
        return v

    while True:
        try:
            start = varint()
        except StopIteration:
            break
        size = varint()
        target = varint()
        dl = varint()
        out.append((start * 2, (start + size) * 2, target * 2, dl >> 1, bool(dl & 1)))
    return out


# (pops, pushes) for the instructions whose effect does not depend on tags
FIXED: Dict[str, Tuple[int, int]] = {
    "NOP": (0, 0), "RESUME": (0, 0), "POP_TOP": (1, 0), "PUSH_NULL": (0, 1), "END_FOR": (2, 0),
    "UNARY_NEGATIVE": (1, 1), "UNARY_NOT": (1, 1), "UNARY_INVERT": (1, 1), "BINARY_OP": (2, 1),
    "BINARY_SUBSCR": (2, 1), "BINARY_SLICE": (3, 1), "STORE_SLICE": (4, 0), "STORE_SUBSCR": (3, 0),
    "DELETE_SUBSCR": (2, 0), "GET_LEN": (0, 1), "MATCH_MAPPING": (0, 1), "MATCH_SEQUENCE": (0, 1),
    "MATCH_KEYS": (0, 1), "GET_ITER": (1, 1), "GET_YIELD_FROM_ITER": (1, 1), "LOAD_BUILD_CLASS": (0, 1),
    "LOAD_ASSERTION_ERROR": (0, 1), "RETURN_GENERATOR": (0, 1), "LOAD_LOCALS": (0, 1), "POP_EXCEPT": (1, 0),
    "STORE_NAME": (1, 0), "DELETE_NAME": (0, 0), "STORE_ATTR": (2, 0), "DELETE_ATTR": (1, 0), "STORE_GLOBAL": (1, 0),
    "DELETE_GLOBAL": (0, 0), "LOAD_CONST": (0, 1), "LOAD_NAME": (0, 1), "COMPARE_OP": (2, 1), "IS_OP": (2, 1),
    "CONTAINS_OP": (2, 1), "IMPORT_NAME": (2, 1), "IMPORT_FROM": (0, 1), "JUMP_FORWARD": (0, 0), "JUMP_BACKWARD": (0, 0),
    "JUMP_BACKWARD_NO_INTERRUPT": (0, 0), "LOAD_FAST": (0, 1), "LOAD_FAST_CHECK": (0, 1), "LOAD_FAST_AND_CLEAR": (0, 1),
    "STORE_FAST": (1, 0), "DELETE_FAST": (0, 0), "MAKE_CELL": (0, 0), "LOAD_CLOSURE": (0, 1), "LOAD_DEREF": (0, 1),
    "STORE_DEREF": (1, 0), "DELETE_DEREF": (0, 0), "COPY_FREE_VARS": (0, 0), "LIST_APPEND": (1, 0), "SET_ADD": (1, 0),
    "MAP_ADD": (2, 0), "LIST_EXTEND": (1, 0), "SET_UPDATE": (1, 0), "DICT_UPDATE": (1, 0), "DICT_MERGE": (1, 0),
    "KW_NAMES": (0, 0), "CALL_INTRINSIC_1": (1, 1), "CALL_INTRINSIC_2": (2, 1), "GET_AITER": (1, 1), "GET_ANEXT": (0, 1),
    "PUSH_EXC_INFO": (1, 2), "CHECK_EXC_MATCH": (2, 2), "CHECK_EG_MATCH": (2, 2), "MATCH_CLASS": (3, 1),
    "LOAD_FROM_DICT_OR_DEREF": (1, 1), "LOAD_FROM_DICT_OR_GLOBALS": (1, 1), "SETUP_ANNOTATIONS": (0, 0),
    "END_ASYNC_FOR": (2, 0), "LOAD_SUPER_ATTR": (3, 1),
    # 3.11 only
    "PRECALL": (0, 0), "LOAD_METHOD": (1, 2), "ASYNC_GEN_WRAP": (1, 1), "LIST_TO_TUPLE": (1, 1), "UNARY_POSITIVE": (1, 1),
    "PRINT_EXPR": (1, 0), "IMPORT_STAR": (1, 0), "LOAD_CLASSDEREF": (0, 1), "PREP_RERAISE_STAR": (2, 1),
}
COND_JUMPS = {"POP_JUMP_IF_TRUE", "POP_JUMP_IF_FALSE", "POP_JUMP_IF_NONE", "POP_JUMP_IF_NOT_NONE",
              # 3.11 spellings
              "POP_JUMP_FORWARD_IF_TRUE", "POP_JUMP_FORWARD_IF_FALSE", "POP_JUMP_FORWARD_IF_NONE", "POP_JUMP_FORWARD_IF_NOT_NONE",
              "POP_JUMP_BACKWARD_IF_TRUE", "POP_JUMP_BACKWARD_IF_FALSE", "POP_JUMP_BACKWARD_IF_NONE", "POP_JUMP_BACKWARD_IF_NOT_NONE"}
OR_POP_JUMPS = {"JUMP_IF_TRUE_OR_POP", "JUMP_IF_FALSE_OR_POP"}
UNCOND_JUMPS = {"JUMP_FORWARD", "JUMP_BACKWARD", "JUMP_BACKWARD_NO_INTERRUPT"}
TERMINAL = {"RETURN_VALUE", "RETURN_CONST", "RERAISE", "RAISE_VARARGS", "INTERPRETER_EXIT"}
# instructions that can never raise (keeps the exception-edge over-approximation tight where it matters)
NO_RAISE = {"NOP", "RESUME", "POP_TOP", "PUSH_NULL", "LOAD_CONST", "COPY", "SWAP", "JUMP_FORWARD", "JUMP_BACKWARD_NO_INTERRUPT",
            "LOAD_FAST", "STORE_FAST", "PUSH_EXC_INFO", "POP_EXCEPT", "RETURN_GENERATOR", "KW_NAMES", "MAKE_CELL",
            "COPY_FREE_VARS", "END_SEND", "END_FOR", "POP_JUMP_IF_NONE", "POP_JUMP_IF_NOT_NONE", "CACHE", "EXTENDED_ARG", "PRECALL"}


class Analysis:
    def __init__(self, code: types.CodeType):
        self.code = code
        self.insns = [i for i in dis.get_instructions(code, show_caches=False)]
        self.by_off = {i.offset: i for i in self.insns}
        self.next_off: Dict[int, int] = {}
        for a, b in zip(self.insns, self.insns[1:]):
            self.next_off[a.offset] = b.offset
        self.table = parse_table(code)
        self.states: Dict[int, Set[State]] = {}
        self.with_offsets: Dict[int, bool] = {}  # w -> is_async
        self.with_handler: Dict[int, int] = {}   # w -> offset of its handler's PUSH_EXC_INFO
        self._run()

    # ------------------------------------------------------------------
    def handler_for(self, off: int) -> Optional[Tuple[int, int, bool]]:
        for (s, e, t, d, l) in self.table:
            if s <= off < e:
                return (t, d, l)
        return None

    def _succ(self, ins: dis.Instruction, s: State) -> List[Tuple[int, State]]:
        name = ins.opname
        o = ins.offset
        nxt = self.next_off.get(o)
        out: List[Tuple[int, State]] = []
        st = list(s)

        def need(n: int) -> None:
            if len(st) < n:
                raise Unsupported(f"stack underflow at {o} {name}")

        def go(off: Optional[int], stack: List[Any]) -> None:
            if off is None:
                raise Unsupported(f"fell off the end at {o}")
            out.append((off, tuple(stack)))

        if name in ("EXTENDED_ARG", "CACHE"):
            go(nxt, st)
        elif name == "BEFORE_WITH" or name == "BEFORE_ASYNC_WITH":
            need(1)
            st.pop()
            is_async = name == "BEFORE_ASYNC_WITH"
            self.with_offsets[o] = is_async
            st.append(("exit", o))
            st.append(("enterres", o) if is_async else None)
            go(nxt, st)
        elif name == "CALL":
            n = ins.arg
            need(n + 2)
            res: Any = None
            callee_slot = st[-(n + 2)]
            if isinstance(callee_slot, tuple) and callee_slot[0] == "exit" and n == 2:
                res = ("exitres", callee_slot[1], o)
            del st[-(n + 2):]
            st.append(res)
            go(nxt, st)
        elif name == "WITH_EXCEPT_START":
            need(4)
            t = st[-4]
            if not (isinstance(t, tuple) and t[0] == "exit"):
                raise Unsupported(f"WITH_EXCEPT_START at {o} without an exit method at depth 4")
            st.append(("exitres", t[1], o))
            self.with_handler[t[1]] = o - 2  # the PUSH_EXC_INFO that begins w's handler
            go(nxt, st)
        elif name == "SWAP":
            n = ins.arg
            need(n)
            st[-1], st[-n] = st[-n], st[-1]
            go(nxt, st)
        elif name == "COPY":
            n = ins.arg
            need(n)
            st.append(st[-n])
            go(nxt, st)
        elif name == "GET_AWAITABLE":
            need(1)
            go(nxt, st)  # keeps the tag of TOS
        elif name == "SEND":
            need(2)
            # fallthrough: receiver yielded a value -> (receiver, yielded)
            a = list(st)
            a[-1] = None
            go(nxt, a)
            # jump: receiver returned -> 3.12: (receiver, retval) at END_SEND; 3.11: receiver popped, (retval)
            b = list(st)
            b[-1] = None
            if PY311:
                b.pop(-2)
            go(ins.argval, b)
        elif name == "END_SEND":
            need(2)
            st.pop(-2)
            st[-1] = None
            go(nxt, st)
        elif name == "YIELD_VALUE":
            need(1)
            st[-1] = None
            go(nxt, st)
        elif name == "CLEANUP_THROW":
            need(3)
            del st[-3:]
            st += [None, None]
            go(nxt, st)
        elif name == "FOR_ITER":
            need(1)
            a = list(st) + [None]
            go(nxt, a)
            # exhausted: pops the iterator and (3.12) skips the END_FOR at the target
            b = list(st)
            b.pop()
            tgt = ins.argval
            if PY311:
                go(tgt, b)
            else:
                if self.by_off[tgt].opname != "END_FOR":
                    raise Unsupported("FOR_ITER target is not END_FOR")
                go(self.next_off[tgt], b)
        elif name in COND_JUMPS:
            need(1)
            st.pop()
            go(nxt, list(st))
            go(ins.argval, list(st))
        elif name in OR_POP_JUMPS:
            need(1)
            go(ins.argval, list(st))
            st.pop()
            go(nxt, st)
        elif name in UNCOND_JUMPS:
            go(ins.argval, st)
        elif name in TERMINAL:
            pass
        elif name == "LOAD_ATTR":
            need(1)
            st.pop()
            # 3.12 folds LOAD_METHOD into LOAD_ATTR (low bit of the oparg); 3.11's oparg is just the name index
            st += [None, None] if ((ins.arg & 1) and not PY311) else [None]
            go(nxt, st)
        elif name == "LOAD_GLOBAL":
            st += [None, None] if (ins.arg & 1) else [None]
            go(nxt, st)
        elif name == "LOAD_SUPER_ATTR":
            need(3)
            del st[-3:]
            st += [None, None] if (ins.arg & 1) else [None]
            go(nxt, st)
        elif name in ("BUILD_TUPLE", "BUILD_LIST", "BUILD_SET", "BUILD_STRING", "BUILD_SLICE"):
            n = ins.arg
            need(n)
            if n:
                del st[-n:]
            st.append(None)
            go(nxt, st)
        elif name == "BUILD_MAP":
            n = 2 * ins.arg
            need(n)
            if n:
                del st[-n:]
            st.append(None)
            go(nxt, st)
        elif name == "BUILD_CONST_KEY_MAP":
            n = ins.arg + 1
            need(n)
            del st[-n:]
            st.append(None)
            go(nxt, st)
        elif name == "UNPACK_SEQUENCE":
            need(1)
            st.pop()
            st += [None] * ins.arg
            go(nxt, st)
        elif name == "UNPACK_EX":
            need(1)
            st.pop()
            st += [None] * ((ins.arg & 0xFF) + (ins.arg >> 8) + 1)
            go(nxt, st)
        elif name == "FORMAT_VALUE":
            n = 2 if (ins.arg & 4) else 1
            need(n)
            del st[-n:]
            st.append(None)
            go(nxt, st)
        elif name == "CALL_FUNCTION_EX":
            n = 3 + (ins.arg & 1)
            need(n)
            del st[-n:]
            st.append(None)
            go(nxt, st)
        elif name == "MAKE_FUNCTION":
            n = 1 + bin(ins.arg & 0x0F).count("1")
            need(n)
            del st[-n:]
            st.append(None)
            go(nxt, st)
        elif name in FIXED:
            p, q = FIXED[name]
            need(p)
            if p:
                del st[-p:]
            st += [None] * q
            go(nxt, st)
        else:
            raise Unsupported(f"opcode {name} at {o}")
        return out

    def _run(self) -> None:
        work: List[Tuple[int, State]] = [(0, ())]
        limit = 200_000
        while work:
            off, s = work.pop()
            seen = self.states.setdefault(off, set())
            if s in seen:
                continue
            seen.add(s)
            limit -= 1
            if limit < 0:
                raise Unsupported("state explosion")
            ins = self.by_off[off]
            for (o2, s2) in self._succ(ins, s):
                work.append((o2, s2))
            if ins.opname not in NO_RAISE:
                h = self.handler_for(off)
                if h is not None:
                    t, d, l = h
                    if len(s) < d:
                        raise Unsupported(f"handler depth {d} exceeds stack {len(s)} at {off}")
                    ns = list(s[:d]) + ([None] if l else []) + [None]
                    work.append((t, tuple(ns)))

    # ------------------------------------------------------------------ oracle
    @staticmethod
    def describe(stack: State) -> Tuple[Tuple[int, ...], Optional[int]]:
        """(entered with-offsets outermost first, exiting with-offset or None)."""
        pending = {t[1] for t in stack if isinstance(t, tuple) and t[0] in ("enterres", "exitres")}
        exiting = [t[1] for t in stack if isinstance(t, tuple) and t[0] == "exitres"]
        # (the third component of an exitres tag is the offset of the call that produced it)
        entered = tuple(t[1] for t in stack if isinstance(t, tuple) and t[0] == "exit" and t[1] not in pending)
        return entered, (exiting[-1] if exiting else None)

    def suspended_views(self, off: int) -> Set[Tuple[State, Tuple[int, ...], Optional[int]]]:
        """Possible (stack, entered, exiting) of a frame SUSPENDED at the YIELD_VALUE at `off`
        (the yielded value has been popped)."""
        out = set()
        for s in self.states.get(off, ()):
            stack = s[:-1]
            ent, ex = self.describe(stack)
            out.add((stack, ent, ex))
        return out

    def yield_offsets(self) -> List[int]:
        return [i.offset for i in self.insns if i.opname == "YIELD_VALUE" and i.offset in self.states]

    def exit_call_origin(self, stack: State) -> Optional[int]:
        for t in reversed(stack):
            if isinstance(t, tuple) and t[0] == "exitres":
                return t[2]
        return None

    def is_unanchored_exit_site(self, w: int, call_off: int) -> bool:
        """Finding F2's signature, stated on the bytecode alone.  The documented matching rule
        for an inlined exit call (LOAD_CONST None x3, CALL 2 at `call_off`) is: the first table
        entry whose inclusive end is the instruction p right before the first LOAD_CONST (or
        p-2 when p is a SWAP/NOP) names the exiting block.  The site is 'unanchored' when that
        rule does not select w's handler: layout adjacency does not hold there (the layout
        predecessor belongs to another branch, e.g. `if c: return K` or try/except as the last
        statement of the with body)."""
        ins = self.by_off.get(call_off)
        if ins is None or ins.opname != "CALL":
            return False  # exception-path exits (WITH_EXCEPT_START) are anchored at the handler itself
        code = self.code.co_code
        off = call_off
        if PY311:
            # LOAD_CONST x3, PRECALL 2, CACHE, CALL 2: step back over the PRECALL and its cache entries
            off -= 2
            while off >= 2 and code[off] == op["CACHE"]:
                off -= 2
            if code[off] != op["PRECALL"]:
                return True
        for _ in range(3):
            off -= 2
            while off >= 2 and code[off - 2] == op["EXTENDED_ARG"]:
                off -= 2
        p = off - 2
        h = self.with_handler.get(w)
        for (s_, e_, t_, _d, _l) in self.table:
            end_incl = e_ - 2
            if end_incl == p or (end_incl == p - 2 and code[p] in (op["SWAP"], op["NOP"])):
                return t_ != h
        return True
