"""symx -- a small concolic / symbolic-execution engine over z3.

The *real* functions of /repo are run as ordinary Python on proxy values
(`SInt`, `SBool`).  Whenever the code under test asks a proxy for its truth
value the engine asks z3 whether each direction is feasible under the current
path condition, follows one and remembers the other; a depth-first driver
re-executes the harness until no unexplored alternative is left.  A run
therefore ends in one of three states:

* every feasible path was explored and the harness assertion held on each
  ("holds within the bound");
* a path raised -> the path condition's model is a concrete counterexample;
* a budget was hit or z3 said `unknown` -> inconclusive, reported as such.

Proxies deliberately support only what the code under test does with
numbers: arithmetic, comparison, bit operations (BV mode), truth-testing,
`__index__`/`__hash__` (both *realise*: pick a model value v, branch on
x == v so that x != v is explored later).
"""
from __future__ import annotations

import time
from typing import Any, Callable, Dict, List, Optional, Tuple

import z3


class Inconclusive(Exception):
    """Raised inside a path when the solver cannot decide a branch."""


class Infeasible(BaseException):
    """Raised by assume() when the assumption contradicts the path so far."""


class Nondeterminism(Exception):
    pass


class Violation(Exception):
    """Raised by harness code when the property assertion fails."""

    def __init__(self, msg: str, **detail: Any):
        super().__init__(msg)
        self.detail = detail


def _is_sym(x: Any) -> bool:
    return isinstance(x, (SInt, SBool))


class SBool:
    __slots__ = ("eng", "e")

    def __init__(self, eng: "Engine", e: z3.BoolRef):
        self.eng = eng
        self.e = e

    def __bool__(self) -> bool:
        return self.eng.decide(self.e)

    def __invert__(self) -> "SBool":
        return SBool(self.eng, z3.Not(self.e))

    def __and__(self, o: Any) -> "SBool":
        return SBool(self.eng, z3.And(self.e, self.eng.to_bool(o)))

    __rand__ = __and__

    def __or__(self, o: Any) -> "SBool":
        return SBool(self.eng, z3.Or(self.e, self.eng.to_bool(o)))

    __ror__ = __or__

    def __eq__(self, o: Any) -> Any:  # type: ignore[override]
        if isinstance(o, (bool, SBool)):
            return SBool(self.eng, self.e == self.eng.to_bool(o))
        return NotImplemented

    def __ne__(self, o: Any) -> Any:  # type: ignore[override]
        if isinstance(o, (bool, SBool)):
            return SBool(self.eng, self.e != self.eng.to_bool(o))
        return NotImplemented

    def __hash__(self) -> int:
        return hash(bool(self))

    def __repr__(self) -> str:
        return f"SBool({self.e})"

    def __index__(self) -> int:
        return int(bool(self))

    def __int__(self) -> int:
        return int(bool(self))


class SInt:
    """Symbolic integer.  Backed by a z3 Int (mathematical integers, the right
    model for Python's int) or, in BV mode, a bit-vector wide enough for the
    stated bound (used only for the varint / exception-table lemma, where the
    code under test does &, |, <<, >>)."""

    __slots__ = ("eng", "e", "_val")

    def __init__(self, eng: "Engine", e: Any):
        self.eng = eng
        self.e = e
        self._val: Optional[int] = None

    # ---- helpers
    def _lift(self, o: Any) -> Any:
        if isinstance(o, SInt):
            return o.e
        if isinstance(o, SBool):
            one, zero = self.eng.const(1), self.eng.const(0)
            return z3.If(o.e, one, zero)
        if isinstance(o, bool):
            return self.eng.const(int(o))
        if isinstance(o, int):
            return self.eng.const(o)
        return None

    def _bin(self, o: Any, f: Callable[[Any, Any], Any], rev: bool = False) -> Any:
        if self._val is not None and not _is_sym(o):
            return NotImplemented if not isinstance(o, int) else None
        b = self._lift(o)
        if b is None:
            return NotImplemented
        return SInt(self.eng, f(b, self.e) if rev else f(self.e, b))

    def _arith(self, o: Any, name: str, rev: bool = False) -> Any:
        # once realised, behave as the plain int (keeps later code concrete)
        if self._val is not None and isinstance(o, int) and not isinstance(o, bool):
            a, b = (o, self._val) if rev else (self._val, o)
            return getattr(int, name)(a, b)
        if isinstance(o, SInt) and o._val is not None and self._val is not None:
            a, b = (o._val, self._val) if rev else (self._val, o._val)
            return getattr(int, name)(a, b)
        b = self._lift(o)
        if b is None:
            return NotImplemented
        x, y = (b, self.e) if rev else (self.e, b)
        return SInt(self.eng, self.eng.op(name, x, y))

    def _cmp(self, o: Any, name: str) -> Any:
        if self._val is not None and isinstance(o, int):
            return getattr(int, name)(self._val, o)
        b = self._lift(o)
        if b is None:
            return NotImplemented
        return SBool(self.eng, self.eng.cmp(name, self.e, b))

    # ---- arithmetic
    def __add__(self, o: Any) -> Any:
        return self._arith(o, "__add__")

    def __radd__(self, o: Any) -> Any:
        return self._arith(o, "__add__", True)

    def __sub__(self, o: Any) -> Any:
        return self._arith(o, "__sub__")

    def __rsub__(self, o: Any) -> Any:
        return self._arith(o, "__sub__", True)

    def __mul__(self, o: Any) -> Any:
        return self._arith(o, "__mul__")

    def __rmul__(self, o: Any) -> Any:
        return self._arith(o, "__mul__", True)

    def __floordiv__(self, o: Any) -> Any:
        return self._arith(o, "__floordiv__")

    def __rfloordiv__(self, o: Any) -> Any:
        return self._arith(o, "__floordiv__", True)

    def __mod__(self, o: Any) -> Any:
        return self._arith(o, "__mod__")

    def __rmod__(self, o: Any) -> Any:
        return self._arith(o, "__mod__", True)

    def __lshift__(self, o: Any) -> Any:
        return self._arith(o, "__lshift__")

    def __rshift__(self, o: Any) -> Any:
        return self._arith(o, "__rshift__")

    def __and__(self, o: Any) -> Any:
        return self._arith(o, "__and__")

    def __rand__(self, o: Any) -> Any:
        return self._arith(o, "__and__", True)

    def __or__(self, o: Any) -> Any:
        return self._arith(o, "__or__")

    def __ror__(self, o: Any) -> Any:
        return self._arith(o, "__or__", True)

    def __xor__(self, o: Any) -> Any:
        return self._arith(o, "__xor__")

    def __rxor__(self, o: Any) -> Any:
        return self._arith(o, "__xor__", True)

    def __neg__(self) -> Any:
        if self._val is not None:
            return -self._val
        return SInt(self.eng, -self.e)

    def __pos__(self) -> Any:
        return self

    def __abs__(self) -> Any:
        if self._val is not None:
            return abs(self._val)
        return SInt(self.eng, z3.If(self.eng.cmp("__lt__", self.e, self.eng.const(0)), -self.e, self.e))

    # ---- comparison
    def __lt__(self, o: Any) -> Any:
        return self._cmp(o, "__lt__")

    def __le__(self, o: Any) -> Any:
        return self._cmp(o, "__le__")

    def __gt__(self, o: Any) -> Any:
        return self._cmp(o, "__gt__")

    def __ge__(self, o: Any) -> Any:
        return self._cmp(o, "__ge__")

    def __eq__(self, o: Any) -> Any:  # type: ignore[override]
        if o is None or not isinstance(o, (int, SInt, SBool)):
            return False
        return self._cmp(o, "__eq__")

    def __ne__(self, o: Any) -> Any:  # type: ignore[override]
        if o is None or not isinstance(o, (int, SInt, SBool)):
            return True
        return self._cmp(o, "__ne__")

    # ---- concretisation
    def __bool__(self) -> bool:
        if self._val is not None:
            return self._val != 0
        return self.eng.decide(self.eng.cmp("__ne__", self.e, self.eng.const(0)))

    def realise(self) -> int:
        if self._val is None:
            self._val = self.eng.realise(self.e)
        return self._val

    __index__ = realise
    __int__ = realise

    def __hash__(self) -> int:
        return hash(self.realise())

    def __repr__(self) -> str:
        if self._val is not None:
            return f"SInt(={self._val})"
        return f"SInt({self.e})"

    def __format__(self, spec: str) -> str:
        return format(self.realise(), spec)

    def __str__(self) -> str:
        return str(self.realise())


class PathResult:
    __slots__ = ("status", "model", "exc", "detail", "decisions", "value")

    def __init__(self) -> None:
        self.status = "ok"
        self.model: Dict[str, Any] = {}
        self.exc: Optional[BaseException] = None
        self.detail: Any = None
        self.decisions = 0
        self.value: Any = None


class Engine:
    """Depth-first explorer.  `bv` = bit width for BV mode, or None for Int."""

    def __init__(
        self,
        *,
        bv: Optional[int] = None,
        query_timeout_ms: Optional[int] = None,
        max_paths: int = 100_000,
        max_seconds: float = 600.0,
        max_decisions_per_path: int = 20_000,
        cross_check: bool = False,
    ) -> None:
        self.bv = bv
        self.query_timeout_ms = query_timeout_ms
        self.max_paths = max_paths
        self.max_seconds = max_seconds
        self.max_decisions = max_decisions_per_path
        self.cross_check = cross_check
        self.cross_checked = 0
        self.queries = 0
        self.solver_time = 0.0
        self.paths = 0
        self.inconclusive: List[str] = []
        self.exhausted = False
        # per-path state
        self._solver: z3.Solver = z3.Solver()
        self._prefix: List[Tuple[bool, bool, Any]] = []
        self._trace: List[Tuple[bool, bool, Any]] = []  # (taken, alt_feasible, key)
        self.nondeterminism = 0
        self.exceptions: List[str] = []
        self.n_exceptions = 0
        self._vars: Dict[str, Any] = {}
        self._model: Any = None
        self._decided: Dict[int, bool] = {}
        self._keep: List[Any] = []
        self._fresh = 0

    # ---- expression helpers
    def const(self, v: int) -> Any:
        if self.bv:
            return z3.BitVecVal(v, self.bv)
        return z3.IntVal(v)

    def op(self, name: str, x: Any, y: Any) -> Any:
        if self.bv:
            f = {
                "__add__": lambda a, b: a + b,
                "__sub__": lambda a, b: a - b,
                "__mul__": lambda a, b: a * b,
                "__floordiv__": lambda a, b: z3.UDiv(a, b),
                "__mod__": lambda a, b: z3.URem(a, b),
                "__lshift__": lambda a, b: a << b,
                "__rshift__": lambda a, b: z3.LShR(a, b),
                "__and__": lambda a, b: a & b,
                "__or__": lambda a, b: a | b,
                "__xor__": lambda a, b: a ^ b,
            }[name]
            return f(x, y)
        if name == "__add__":
            return x + y
        if name == "__sub__":
            return x - y
        if name == "__mul__":
            return x * y
        if name == "__floordiv__":
            # Python floor division; z3 Int div is Euclidean (== floor for y > 0)
            return z3.If(y > 0, x / y, z3.If(x % y == 0, x / y, x / y - 1))
        if name == "__mod__":
            q = z3.If(y > 0, x / y, z3.If(x % y == 0, x / y, x / y - 1))
            return x - y * q
        if name in ("__lshift__", "__rshift__", "__and__", "__or__", "__xor__"):
            raise Inconclusive(f"bit operation {name} on Int-backed symbolic (use BV mode)")
        raise NotImplementedError(name)

    def cmp(self, name: str, x: Any, y: Any) -> Any:
        if self.bv:
            f = {
                "__lt__": z3.ULT,
                "__le__": z3.ULE,
                "__gt__": z3.UGT,
                "__ge__": z3.UGE,
                "__eq__": lambda a, b: a == b,
                "__ne__": lambda a, b: a != b,
            }[name]
            return f(x, y)
        return {
            "__lt__": lambda a, b: a < b,
            "__le__": lambda a, b: a <= b,
            "__gt__": lambda a, b: a > b,
            "__ge__": lambda a, b: a >= b,
            "__eq__": lambda a, b: a == b,
            "__ne__": lambda a, b: a != b,
        }[name](x, y)

    def to_bool(self, o: Any) -> Any:
        if isinstance(o, SBool):
            return o.e
        if isinstance(o, SInt):
            return self.cmp("__ne__", o.e, self.const(0))
        return z3.BoolVal(bool(o))

    # ---- symbolic inputs
    def int(self, name: str, lo: Optional[int] = None, hi: Optional[int] = None) -> SInt:
        if name in self._vars:
            raise ValueError(f"duplicate symbolic variable {name}")
        v = z3.BitVec(name, self.bv) if self.bv else z3.Int(name)
        self._vars[name] = v
        if lo is not None:
            self._add(self.cmp("__ge__", v, self.const(lo)))
        if hi is not None:
            self._add(self.cmp("__le__", v, self.const(hi)))
        return SInt(self, v)

    def bool(self, name: str) -> SBool:
        if name in self._vars:
            raise ValueError(f"duplicate symbolic variable {name}")
        v = z3.Bool(name)
        self._vars[name] = v
        return SBool(self, v)

    def choice(self, name: str, n: int) -> int:
        """A symbolic value in range(n), made concrete by bisection on solver-decided
        comparisons (one path per feasible value, O(log n) decisions each)."""
        if n <= 0:
            raise Infeasible()
        x = self.int(name, 0, n - 1)
        lo, hi = 0, n - 1
        while lo < hi:
            mid = (lo + hi) // 2
            if x <= mid:
                hi = mid
            else:
                lo = mid + 1
        x._val = lo
        return lo

    def flag(self, name: str) -> bool:
        return bool(self.bool(name))

    def assume(self, c: Any) -> None:
        e = self.to_bool(c)
        r = self._check(e)
        if r == z3.unsat:
            raise Infeasible()
        if r == z3.unknown:
            raise Inconclusive("assume: unknown")
        self._add(e)

    # ---- core
    def _check(self, *assumptions: Any) -> Any:
        t0 = time.perf_counter()
        r = self._solver.check(*assumptions)
        self.solver_time += time.perf_counter() - t0
        self.queries += 1
        return r

    def _add(self, c: Any) -> None:
        """Assert c; keep the cached model only if it still satisfies everything."""
        self._solver.add(c)
        m = self._model
        if m is not None and not z3.is_true(m.eval(c, model_completion=True)):
            self._model = None

    def _sat_model(self, *assumptions: Any) -> Any:
        r = self._check(*assumptions)
        if r == z3.sat:
            return r, self._solver.model()
        if r == z3.unsat and self.cross_check:
            # an unsound `unsat` would silently drop a path: ask a second solver
            r2 = self._cvc5(*assumptions)
            self.cross_checked += 1
            if r2 != "unsat":
                self.inconclusive.append(f"z3 says unsat, cvc5 says {r2}")
                return z3.unknown, None
        return r, None

    def _cvc5(self, *assumptions: Any) -> str:
        import cvc5

        tmp = z3.Solver()
        tmp.add(*self._solver.assertions())
        tmp.add(*assumptions)
        txt = tmp.to_smt2()
        slv = cvc5.Solver()
        slv.setLogic("ALL")
        slv.setOption("tlimit-per", "20000")
        sm = cvc5.SymbolManager(slv)
        ip = cvc5.InputParser(slv, sm)
        ip.setStringInput(cvc5.InputLanguage.SMT_LIB_2_6, txt, "q")
        res = "unknown"
        while True:
            cmd = ip.nextCommand()
            if cmd.isNull():
                break
            out = str(cmd.invoke(slv, sm)).strip()
            if out in ("sat", "unsat", "unknown"):
                res = out
        return res

    def decide(self, cond: Any, payload: Any = None) -> bool:
        cond = z3.simplify(cond)
        if z3.is_true(cond):
            return True
        if z3.is_false(cond):
            return False
        # a condition already decided on this path keeps its value (no new decision, no query)
        neg = z3.is_not(cond)
        cid = (cond.arg(0) if neg else cond).get_id()
        if cid in self._decided:
            return self._decided[cid] != neg
        i = len(self._trace)
        if i >= self.max_decisions:
            raise Inconclusive("decision budget per path exceeded")
        key = cond.hash()   # structural hash: a replayed decision must be about the same condition
        if i < len(self._prefix):
            taken, alt, want, _ = self._prefix[i]
            if want is not None and want != key:
                # the harness did not repeat itself: replaying the recorded branch directions against other
                # conditions would silently drop or invent paths
                self.nondeterminism += 1
                raise Inconclusive(f"nondeterministic harness: decision #{i} is now about {str(cond)[:120]}")
            self._add(cond if taken else z3.Not(cond))
            self._trace.append((taken, alt, key, payload))
            self._decided[cid] = taken != neg
            self._keep.append(cond)
            return taken
        # One side may already be known feasible from the cached model of the
        # path condition; the other side always gets a solver query.
        known: Optional[bool] = None
        if self._model is not None:
            v = self._model.eval(cond, model_completion=True)
            if z3.is_true(v):
                known = True
            elif z3.is_false(v):
                known = False
        if known is True:
            rt, mt = z3.sat, self._model
            rf, mf = self._sat_model(z3.Not(cond))
        elif known is False:
            rf, mf = z3.sat, self._model
            rt, mt = self._sat_model(cond)
        else:
            rt, mt = self._sat_model(cond)
            rf, mf = self._sat_model(z3.Not(cond))
        if rt == z3.unknown or rf == z3.unknown:
            self.inconclusive.append(f"z3 unknown on branch #{i}")
            if rt == z3.sat:
                taken, alt = True, False
            elif rf == z3.sat:
                taken, alt = False, False
            else:
                raise Inconclusive("z3 unknown on both directions")
        elif rt == z3.sat and rf == z3.sat:
            taken, alt = True, True
        elif rt == z3.sat:
            taken, alt = True, False
        elif rf == z3.sat:
            taken, alt = False, False
        else:
            raise Infeasible()
        self._solver.add(cond if taken else z3.Not(cond))
        self._model = mt if taken else mf
        self._trace.append((taken, alt, key, payload))
        self._decided[cid] = taken != neg
        self._keep.append(cond)  # keeps the AST (and hence its id) alive for the rest of the path
        return taken

    def realise(self, e: Any) -> int:
        e = z3.simplify(e)
        if z3.is_int_value(e) or z3.is_bv_value(e):
            return e.as_long()
        # Replay determinism: the value tried first comes from a model, and models are not
        # repeatable between the original run (two queries per decision) and its replay (assertions
        # only).  The value is therefore recorded with the decision and re-used when the decision
        # is replayed; otherwise a replay would negate `e == other value` and lose / repeat values.
        i = len(self._trace)
        ekey = e.hash()
        val: Optional[int] = None
        if i < len(self._prefix):
            pay = self._prefix[i][3]
            if pay is not None and pay[0] == ekey:
                val = pay[1]
        if val is None:
            if self._model is None:
                r, m = self._sat_model()
                if r != z3.sat:
                    raise Inconclusive("realise: path condition not sat")
                self._model = m
            val = self._model.eval(e, model_completion=True).as_long()
        v = z3.BitVecVal(val, e.size()) if z3.is_bv(e) else z3.IntVal(val)
        if self.decide(e == v, payload=(ekey, val)):
            return val
        # explored later with e != v: realise again under the new constraint
        return self.realise(e)

    def model(self) -> Dict[str, Any]:
        m = self._model
        if m is None:
            r = self._check()
            if r != z3.sat:
                return {}
            m = self._solver.model()
        out: Dict[str, Any] = {}
        for name, v in self._vars.items():
            val = m.eval(v, model_completion=True)
            if z3.is_bool(val):
                out[name] = z3.is_true(val)
            else:
                out[name] = val.as_long()
        return out

    def explore(self, harness: Callable[["Engine"], Any]) -> List[PathResult]:
        """Run `harness(engine)` over every feasible path."""
        results: List[PathResult] = []
        t_end = time.monotonic() + self.max_seconds
        prefix: List[Tuple[bool, bool, Any]] = []
        self.exhausted = False
        while True:
            if self.paths >= self.max_paths or time.monotonic() > t_end:
                self.inconclusive.append("exploration budget hit (paths or seconds)")
                return results
            self._solver = z3.SimpleSolver()
            if self.query_timeout_ms:
                self._solver.set("timeout", self.query_timeout_ms)
            self._prefix = prefix
            self._trace = []
            self._vars = {}
            self._model = None
            self._decided = {}
            self._keep = []
            res = PathResult()
            try:
                res.value = harness(self)
            except Infeasible:
                res.status = "infeasible"
            except Inconclusive as ex:
                res.status = "inconclusive"
                res.detail = str(ex)
                self.inconclusive.append(str(ex))
            except Violation as ex:
                res.status = "violation"
                res.exc = ex
                res.detail = ex.detail
            except Exception as ex:  # unexpected exception out of the harness / the code under test
                res.status = "exception"
                res.exc = ex
                # never silent: a path that ended in an exception the harness did not account for has NOT been checked
                if len(self.exceptions) < 3:
                    import traceback as _tb

                    self.exceptions.append(f"{ex!r} | " + " <- ".join(f"{f.name}:{f.lineno}" for f in _tb.extract_tb(ex.__traceback__)[-4:][::-1]))
                self.n_exceptions += 1
            res.decisions = len(self._trace)
            if res.status != "infeasible":
                try:
                    res.model = self.model()
                except Exception:
                    res.model = {}
                self.paths += 1
                results.append(res)
            # backtrack: last decision (beyond what was forced) with feasible alt
            tr = self._trace
            j = len(tr) - 1
            while j >= 0 and not tr[j][1]:
                j -= 1
            if j < 0:
                self.exhausted = True
                return results
            prefix = list(tr[:j]) + [(not tr[j][0], False, tr[j][2], tr[j][3])]
